module verif/sqlcheck

go 1.23

require github.com/mattn/go-sqlite3 v1.14.24

// sqlcheck replays the statements a harness run sent to the in-memory
// relational model (verifh/memdb.go) on a real SQLite database and compares
// query results and final table contents. It validates the model, which is a
// trusted part of C12: a mismatch makes the check inconclusive.
//
// usage: sqlcheck <trace.json>...   (exit 0 = all agree, 1 = mismatch, 2 = usage/IO)
package main

import (
	"database/sql"
	"encoding/json"
	"fmt"
	"os"
	"sort"
	"strings"

	_ "github.com/mattn/go-sqlite3"
)

type Table struct {
	Name string          `json:"name"`
	Cols []string        `json:"cols"`
	PK   []string        `json:"pk"`
	Rows [][]interface{} `json:"rows"`
}

type Stmt struct {
	Kind     string          `json:"kind"` // EXEC | QUERY
	Text     string          `json:"text"`
	Args     []interface{}   `json:"args"`
	Rows     [][]interface{} `json:"rows"`     // QUERY: rows the model returned
	Affected int64           `json:"affected"` // EXEC: rows the model reports as affected
}

type Trace struct {
	Label   string  `json:"label"`
	Initial []Table `json:"initial"`
	Stmts   []Stmt  `json:"stmts"`
	Final   []Table `json:"final"`
}

func norm(v interface{}) string {
	switch x := v.(type) {
	case nil:
		return "NULL"
	case float64:
		return fmt.Sprint(int64(x))
	case int64:
		return fmt.Sprint(x)
	case []byte:
		return string(x)
	case string:
		return x
	}
	return fmt.Sprint(v)
}

func rowsKey(rows [][]interface{}) []string {
	var out []string
	for _, r := range rows {
		var p []string
		for _, c := range r {
			p = append(p, norm(c))
		}
		out = append(out, strings.Join(p, "|"))
	}
	sort.Strings(out)
	return out
}

func same(a, b []string) bool {
	if len(a) != len(b) {
		return false
	}
	for i := range a {
		if a[i] != b[i] {
			return false
		}
	}
	return true
}

func q(s string) string { return "`" + s + "`" }

func run(tr Trace) error {
	db, err := sql.Open("sqlite3", ":memory:")
	if err != nil {
		return err
	}
	defer db.Close()
	db.SetMaxOpenConns(1)
	for _, t := range tr.Initial {
		var defs []string
		for _, c := range t.Cols {
			d := q(c)
			if len(t.PK) == 1 && t.PK[0] == c {
				d += " integer PRIMARY KEY"
			}
			defs = append(defs, d)
		}
		if len(t.PK) > 1 {
			var pk []string
			for _, c := range t.PK {
				pk = append(pk, q(c))
			}
			defs = append(defs, "PRIMARY KEY ("+strings.Join(pk, ",")+")")
		}
		if _, err := db.Exec("CREATE TABLE " + q(t.Name) + " (" + strings.Join(defs, ",") + ")"); err != nil {
			return fmt.Errorf("create %s: %v", t.Name, err)
		}
		for _, r := range t.Rows {
			ph := strings.TrimSuffix(strings.Repeat("?,", len(r)), ",")
			if _, err := db.Exec("INSERT INTO "+q(t.Name)+" VALUES ("+ph+")", fix(r)...); err != nil {
				return fmt.Errorf("seed %s: %v", t.Name, err)
			}
		}
	}
	for i, s := range tr.Stmts {
		switch s.Kind {
		case "EXEC":
			res, err := db.Exec(s.Text, fix(s.Args)...)
			if s.Affected == -2 {
				// the model rejected the statement (unknown column): SQLite must reject it too
				if err == nil {
					return fmt.Errorf("statement %d %q: model rejects it, sqlite accepts it", i, s.Text)
				}
				continue
			}
			if s.Affected == -1 {
				if err == nil {
					return fmt.Errorf("statement %d %q: model reports a uniqueness violation, sqlite accepts it", i, s.Text)
				}
				continue
			}
			if err != nil {
				return fmt.Errorf("statement %d %q: sqlite error: %v", i, s.Text, err)
			}
			if n, _ := res.RowsAffected(); s.Affected >= 0 && n != s.Affected && !strings.Contains(s.Text, "ON CONFLICT") {
				return fmt.Errorf("statement %d %q %v: model affected %d rows, sqlite %d", i, s.Text, s.Args, s.Affected, n)
			}
		case "QUERY":
			rows, err := db.Query(s.Text, fix(s.Args)...)
			if s.Affected == -2 {
				// the model rejected the query (unknown column): SQLite must reject it too
				if err == nil {
					rows.Close()
					return fmt.Errorf("statement %d %q: model rejects it, sqlite accepts it", i, s.Text)
				}
				continue
			}
			if err != nil {
				return fmt.Errorf("statement %d %q: sqlite error: %v", i, s.Text, err)
			}
			cols, _ := rows.Columns()
			var got [][]interface{}
			for rows.Next() {
				vals := make([]interface{}, len(cols))
				ptrs := make([]interface{}, len(cols))
				for k := range vals {
					ptrs[k] = &vals[k]
				}
				if err := rows.Scan(ptrs...); err != nil {
					return err
				}
				got = append(got, vals)
			}
			rows.Close()
			if !same(rowsKey(got), rowsKey(s.Rows)) {
				return fmt.Errorf("statement %d %q %v: model returned %v, sqlite %v", i, s.Text, s.Args, rowsKey(s.Rows), rowsKey(got))
			}
		}
	}
	for _, t := range tr.Final {
		var cols []string
		for _, c := range t.Cols {
			cols = append(cols, q(c))
		}
		rows, err := db.Query("SELECT " + strings.Join(cols, ",") + " FROM " + q(t.Name))
		if err != nil {
			return err
		}
		var got [][]interface{}
		for rows.Next() {
			vals := make([]interface{}, len(cols))
			ptrs := make([]interface{}, len(cols))
			for k := range vals {
				ptrs[k] = &vals[k]
			}
			if err := rows.Scan(ptrs...); err != nil {
				return err
			}
			got = append(got, vals)
		}
		rows.Close()
		if !same(rowsKey(got), rowsKey(t.Rows)) {
			return fmt.Errorf("final contents of %s: model %v, sqlite %v", t.Name, rowsKey(t.Rows), rowsKey(got))
		}
	}
	return nil
}

func fix(in []interface{}) []interface{} {
	out := make([]interface{}, len(in))
	for i, v := range in {
		if f, ok := v.(float64); ok {
			out[i] = int64(f)
		} else {
			out[i] = v
		}
	}
	return out
}

func main() {
	if len(os.Args) < 2 {
		fmt.Fprintln(os.Stderr, "usage: sqlcheck <trace.json>...")
		os.Exit(2)
	}
	bad := 0
	n := 0
	for _, f := range os.Args[1:] {
		b, err := os.ReadFile(f)
		if err != nil {
			fmt.Fprintln(os.Stderr, err)
			os.Exit(2)
		}
		var trs []Trace
		if err := json.Unmarshal(b, &trs); err != nil {
			fmt.Fprintln(os.Stderr, f, err)
			os.Exit(2)
		}
		for _, tr := range trs {
			n++
			if err := run(tr); err != nil {
				bad++
				fmt.Printf("MISMATCH %s: %v\n", tr.Label, err)
			}
		}
	}
	fmt.Printf("sqlcheck: %d traces, %d mismatches\n", n, bad)
	if bad > 0 {
		os.Exit(1)
	}
}

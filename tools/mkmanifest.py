#!/usr/bin/env python3
"""Regenerates /verif/MANIFEST.json from the table below (kept in one place so
the manifest is always schema-valid)."""
import json, os, sys
HERE = os.path.dirname(os.path.dirname(os.path.abspath(__file__)))
BASE = json.load(open('/root/.vp/BASELINE.json'))['cmd'] if os.path.exists('/root/.vp/BASELINE.json') else ''

TECH = "bounded symbolic execution of the real go/ssa code (own SSA interpreter), SMT (z3) decides every branch and assertion; counterexamples replayed natively"

# id -> (design_ref, level text, level_note)
CLAIMED = json.load(open(os.path.join(HERE, 'tools', 'claims.json')))
NA = json.load(open(os.path.join(HERE, 'tools', 'not_applicable.json')))

checks = []
for pid in sorted(CLAIMED):
    c = CLAIMED[pid]
    checks.append({
        "property_id": pid,
        "quick_cmd": f"./check {pid} --tier quick",
        "thorough_cmd": f"./check {pid} --tier thorough",
        "evidence_file": f"/verif/evidence/{pid}.json",
        "replay_cmd_template": f"./check {pid} --replay {{path}}",
        "engine": "gosym",
        "level_claimed": {"category": "model_checking", "text": c["text"], "design_ref": c.get("design_ref", "DESIGN.md §4")},
        "level_note": c["note"],
        "technique": c.get("technique", TECH),
    })

m = {
    "version": 1,
    "setup_cmd": "cd /verif/engine && GOFLAGS=-mod=mod GOPROXY=off GOSUMDB=off GOTOOLCHAIN=local go build -o ../bin/gosym . && cd /verif/sqlcheck && GOFLAGS=-mod=mod GOPROXY=off GOSUMDB=off GOTOOLCHAIN=local go build -o ../bin/sqlcheck . ; cd /verif && ./check C17 --tier quick --no-evidence >/dev/null 2>&1; true",
    "hooks": {
        "guard": "verif",
        "enable": "none needed: harness sources under /verif/harness are injected into the build of /repo with go/packages Overlay (symbolic) and `go test -overlay` (native replay); /repo is never modified and no file in /repo uses the tag",
        "baseline_off_cmd": BASE,
        "source_commits": [],
        "add_only": True,
    },
    "engines": [{
        "name": "gosym",
        "path": "/verif/engine",
        "serves_properties": sorted(CLAIMED),
        "kind_free_text": "(C12 additionally: /verif/sqlcheck replays the statement traces of the relational model on SQLite) symbolic interpreter for go/ssa (x/tools v0.29.0) over bit-vector terms with one persistent z3 -in session per worker; decision-vector DFS; reflect model over go/types; harnesses are Go code injected by overlay, also compiled natively for replay and differential validation",
    }],
    "checks": checks,
    "not_applicable": [{"property_id": k, "reason": v} for k, v in sorted(NA.items())],
    "notes": "Exit codes of ./check: 0 held within the stated bounds, 1 violation (VIOLATION line), 2 inconclusive (solver unknown, unwinding/unsupported construct, encoder mismatch, harness does not build) — never reported as a pass. Known findings: /verif/known_findings.json.",
}
json.dump(m, open(os.path.join(HERE, 'MANIFEST.json'), 'w'), indent=1)
print("MANIFEST.json:", len(checks), "checks,", len(NA), "not applicable")

#!/bin/bash
# tools/runall.sh [tier] — runs every registered check, prints exit code and wall time
tier="${1:-quick}"
cd /verif
for p in $(python3 -c "import json;print(' '.join(c['property_id'] for c in json.load(open('MANIFEST.json'))['checks']))"); do
  t0=$(date +%s)
  out=$(./check $p --tier $tier 2>&1); rc=$?
  t1=$(date +%s)
  echo "$p rc=$rc $((t1-t0))s $(echo "$out" | grep "^$p tier" | sed 's/queries.*validated/validated/' | cut -c1-150)"
  if [ $rc -ne 0 ]; then echo "$out" | grep -v "^KNOWN" | tail -4 | cut -c1-300; fi
done

#!/bin/bash
# tools/regress_seeds.sh [seed-id-prefix...] — re-runs every kept seeded change against the quick check of its
# property on a scratch copy of /repo (never /repo itself) and prints one line per seed.
# Result is also written to /verif/seeded/REGRESSION.txt when run without arguments.
set -u
S=${SEEDREPO:-/tmp/seedrepo}
rm -rf "$S"; mkdir -p "$S"; rsync -a --delete /repo/ "$S/"
cd /verif
out=/verif/seeded/REGRESSION.txt
[ $# -gt 0 ] && out=/dev/null
: > "$out.tmp"
for d in seeded/*/; do
  id=$(basename "$d"); prop=${id%%-*}
  # the check named by the seed's detection command (a few changes are caught by another property's check)
  alt=$(python3 -c "import json,re;c=json.load(open('$d/meta.json'))['detection']['command'];m=re.search(r'patch.diff (C[0-9]+)',c);print(m.group(1) if m else '')" 2>/dev/null)
  [ -n "$alt" ] && prop=$alt
  if [ $# -gt 0 ]; then ok=0; for p in "$@"; do case "$id" in $p*) ok=1;; esac; done; [ $ok = 1 ] || continue; fi
  [ -f "$d/patch.diff" ] || continue
  if ! git -C "$S" apply --check "$PWD/$d/patch.diff" 2>/dev/null; then echo "$id NOAPPLY" | tee -a "$out.tmp"; continue; fi
  git -C "$S" apply "$PWD/$d/patch.diff"
  t0=$(date +%s)
  r=$(VERIF_REPO="$S" timeout 1500 ./check "$prop" --tier quick --no-evidence 2>&1); rc=$?
  t1=$(date +%s)
  git -C "$S" checkout -q -- . ; git -C "$S" clean -fdq
  nv=$(echo "$r" | grep -c '^VIOLATION')
  verdict=MISSED; [ $rc -eq 1 ] && [ $nv -gt 0 ] && verdict=DETECTED; [ $rc -eq 2 ] && verdict=INCONCLUSIVE
  echo "$id rc=$rc violations=$nv $verdict $((t1-t0))s" | tee -a "$out.tmp"
done
[ "$out" != /dev/null ] && mv "$out.tmp" "$out" || rm -f "$out.tmp"
rm -rf "$S"

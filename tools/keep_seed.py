#!/usr/bin/env python3
"""tools/keep_seed.py <PROP> <mK> <detected: yes|no|n/a> <check command used> [note]
Copies a confirmed seeded change from /tmp/wt/out into /verif/seeded/<PROP>-<mK>/ with meta.json."""
import json, os, shutil, sys, glob
prop, m, detected, cmd = sys.argv[1:5]
note = sys.argv[5] if len(sys.argv) > 5 else ""
base = os.environ.get("SEEDBASE", "/tmp/wt")
prefix = os.environ.get("SEEDPREFIX", "")
src = f"{base}/out/{prop}/{m}"
dst = f"/verif/seeded/{prop}-{prefix}{m}"
os.makedirs(dst, exist_ok=True)
shutil.copy(f"{src}/patch.diff", dst)
for f in glob.glob(f"{src}/*_test.go"):
    shutil.copy(f, dst)
meta = json.load(open(f"{src}/meta.json"))
conf = {}
cf = f"{base}/confirm/{prop}-{m}.json"
if os.path.exists(cf):
    conf = json.load(open(cf))
out = {
    "property": prop,
    "summary": meta.get("summary"),
    "needs": meta.get("needs"),
    "demo_test": meta.get("demo_test"),
    "demo_run": meta.get("demo_run"),
    "produced_by": "independent sub-agent given only the property text and a scratch worktree",
    "confirmed_by_me": {
        "how": "tools/confirm_seed.sh in a scratch worktree of /repo (%s/%s): go build ./...; full suite of both modules with the change; demo with the change; demo without it" % (base, prop),
        **conf,
    },
    "detection": {"detected_by_check": detected, "command": cmd, "note": note},
}
json.dump(out, open(f"{dst}/meta.json", "w"), indent=1)
print("kept", dst, conf)

#!/bin/bash
# tools/tryall.sh <base> <PROP>... : run each seed of the properties against its check (quick), print verdict
base="$1"; shift
for id in "$@"; do for m in m1 m2 m3; do
  p=$base/out/$id/$m/patch.diff; [ -f $p ] || continue
  r=$(/verif/tools/trymut.sh $p $id --tier quick 2>&1 | tail -3)
  rc=$(echo "$r" | grep -o "exit=[0-9]*"); nv=$(echo "$r" | grep -o "violations=[0-9]*")
  echo "$id $m $rc $nv $(echo "$r" | grep -c 'does not apply' | sed 's/1/NOAPPLY/;s/0//')"
done; done

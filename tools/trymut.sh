#!/bin/bash
# tools/trymut.sh <patch.diff> <PROP> [check args...] — run a check against a seeded change.
# The change is applied to a scratch copy of /repo (never to /repo itself); the check reads it through VERIF_REPO.
patch="$(readlink -f "$1")"; prop="$2"; shift 2
S=$(mktemp -d /tmp/trymut.XXXXXX)
trap 'rm -rf "$S"' EXIT
rsync -a /repo/ "$S/"
if ! git -C "$S" apply --check "$patch" 2>/dev/null; then echo "patch does not apply: $patch"; exit 9; fi
git -C "$S" apply "$patch"
cd /verif && VERIF_REPO="$S" timeout 1500 ./check "$prop" --no-evidence "$@" 2>&1 | grep -v "^  harness" | tail -6
echo "exit=${PIPESTATUS[0]}"

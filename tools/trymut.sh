#!/bin/bash
# tools/trymut.sh <patch.diff> <PROP> [check args...] — apply a seeded change to /repo, run the check, undo.
patch="$1"; prop="$2"; shift 2
cd /repo || exit 9
if [ -n "$(git status --porcelain)" ]; then echo "refusing: /repo has uncommitted changes (they would be discarded)"; exit 9; fi
if ! git apply --check "$patch" 2>/dev/null; then echo "patch does not apply: $patch"; exit 9; fi
git apply "$patch"
trap 'git -C /repo checkout -- . ' EXIT
cd /verif && timeout 1500 ./check "$prop" --no-evidence "$@" 2>&1 | grep -v "^  harness" | tail -6
echo "exit=${PIPESTATUS[0]}"

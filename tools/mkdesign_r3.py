#!/usr/bin/env python3
"""Regenerates the 'Round 3' table of DESIGN.md §10 from /verif/seeded/*-r3*/meta.json."""
import json, glob, os
import re
rows = []
for d in sorted(glob.glob('/verif/seeded/*-r[3-9]*'), key=lambda d: (re.search(r'-r(\d)', d).group(1), d)):
    m = json.load(open(d + '/meta.json'))
    det = m['detection']
    how = det['detected_by_check']
    note = det.get('note') or ''
    star = '* ' if 'missed at first' in note else ''
    caught = f"{star}{how}: {det['command'].split('patch.diff ')[-1]}" + (f" — {note}" if note else '')
    rows.append(f"| {os.path.basename(d)} | {(m.get('summary') or '')[:150].replace('|','/')} | {caught.replace('|','/')} |")
block = ["### Rounds 3 to 9 (two changes per property and round, after C07 and C12 were added; worktrees at the repaired tree of the time; round 4 asked for easily overlooked sites and feature interplay, round 5 for changes that depend on the shape of the data or model and on rarely combined options, round 6 for boundaries (zero, one, many; nil versus empty; first versus later use) and error paths that leave the common path as it was, round 7 for effects that need two things used together - an option with a finisher, a clause with a dialect capability, a value used a second time, round 8 (12 properties) for state that outlives one call and helpers shared by several features, round 9 (6 properties: C02, C04, C07, C10, C12, C16) for changes that need an interleaving, a fault at one point, a multi-step sequence or two cooperating sites)", "",
         "Same rules as before (sub-agents see only the property text and a scratch worktree; every change was re-confirmed with tools/confirm_seed.sh: builds, both suites pass with it, the demonstration fails with it and passes without it). `*` marks changes that a check missed as it stood and caught after the strengthening named in the row; a change outside the bounded claim of the property's own check is listed with the check that does catch it. Side remarks of the sub-agents about the unchanged code were followed up: six of them turned out to be genuine defects the checks then reproduced (C06 x3, C02/C08 keyword spelling, C09 many-to-many, C11 pointer keys - see §8).", "",
         "| seed | change (sub-agent's summary) | caught by |", "|---|---|---|"] + rows
B, E = "<!-- BEGIN R3 -->", "<!-- END R3 -->"
p = '/verif/DESIGN.md'
s = open(p).read()
text = B + "\n" + "\n".join(block) + "\n" + E
if B in s:
    s = s[:s.index(B)] + text + s[s.index(E) + len(E):]
else:
    s = s.replace("<!-- BEGIN §11 -->", text + "\n\n<!-- BEGIN §11 -->", 1)
open(p, 'w').write(s)
print("round 3 table:", len(rows), "seeds")

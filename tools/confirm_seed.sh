#!/bin/bash
# tools/confirm_seed.sh <PROP> <mK> : independently confirm a seeded change produced by a sub-agent
# in the scratch worktree /tmp/wt/<PROP>: builds, whole suite passes with it, demo fails with it, demo passes without it.
id="$1"; m="$2"
base=${SEEDBASE:-/tmp/wt}; wt=$base/$id; out=$base/out/$id/$m
export GOFLAGS=-mod=mod GOPROXY=off GOSUMDB=off GOTOOLCHAIN=local TMPDIR=${SEEDBASE:-/tmp/wt}/out/$id/tmpc_$m
mkdir -p $TMPDIR
res=${SEEDBASE:-/tmp/wt}/confirm/$id-$m.json; mkdir -p ${SEEDBASE:-/tmp/wt}/confirm
cd $wt || exit 9
git checkout -q -- . ; git clean -fdq tests/ >/dev/null 2>&1
demo=$(ls $out/*_test.go | head -1)
run=$(python3 -c "import json;print(json.load(open('$out/meta.json')).get('demo_run','TestDemo'))")
git apply $out/patch.diff || { echo '{"applies":false}' > $res; exit 1; }
build=fail; suite=fail; demo_with=unknown; demo_without=unknown
if go build ./... >/dev/null 2>&1; then build=ok; fi
if (go test -vet=off -count=1 ./... >$TMPDIR/suite1.log 2>&1) && (cd tests && go test -vet=off -count=1 ./... >$TMPDIR/suite2.log 2>&1); then suite=pass; fi
cp $demo tests/
if (cd tests && go test -vet=off -count=1 -run "$run" . >$TMPDIR/demo_with.log 2>&1); then demo_with=pass; else demo_with=fail; fi
git checkout -q -- .
if (cd tests && go test -vet=off -count=1 -run "$run" . >$TMPDIR/demo_without.log 2>&1); then demo_without=pass; else demo_without=fail; fi
rm -f tests/$(basename $demo)
git checkout -q -- . 
echo "{\"applies\":true,\"build\":\"$build\",\"suite_with_change\":\"$suite\",\"demo_with_change\":\"$demo_with\",\"demo_without_change\":\"$demo_without\"}" > $res
cat $res

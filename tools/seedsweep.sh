#!/bin/bash
# tools/seedsweep.sh [tier] [seeds...] — every registered check under several VERIF_SEED values
# (the natively re-executed path witnesses depend on the seed); prints only what is not a clean pass.
tier="${1:-quick}"; shift; seeds="${*:-1 2 3}"
cd /verif
for p in $(python3 -c "import json;print(' '.join(c['property_id'] for c in json.load(open('MANIFEST.json'))['checks']))"); do
  for sd in $seeds; do
    out=$(VERIF_SEED=$sd ./check $p --tier $tier --no-evidence 2>&1); rc=$?
    if [ $rc -ne 0 ] || echo "$out" | grep -q "^VIOLATION\|INCONCLUSIVE"; then
      echo "$p seed=$sd rc=$rc"; echo "$out" | grep -v "^KNOWN" | grep "VIOLATION\|INCONCLUSIVE\|harness=" | head -6 | cut -c1-400
    else echo "$p seed=$sd ok"; fi
  done
done

package main

import (
	"fmt"
	"go/types"
	"reflect"
	"regexp"
	"strconv"
	"strings"

	"golang.org/x/tools/go/ssa"
)

type summaryFn func(in *Interp, fn *ssa.Function, args []Value, caller *frame) Value

type noSummary struct{}

// library packages whose initialisers are interpreted (their package-level
// variables, mostly sentinel errors, are read by gorm and the harnesses)
var initPkgs = map[string]bool{"errors": true, "io": true, "context": true, "strconv": true,
	"database/sql/driver": true, "database/sql": true}

func (in *Interp) summary(fn *ssa.Function, args []Value, caller *frame) (Value, bool) {
	env := in.env
	var sf summaryFn
	if v, ok := env.sumCache.Load(fn); ok {
		if _, none := v.(noSummary); none {
			return nil, false
		}
		sf = v.(summaryFn)
	} else {
		sf = env.findSummary(fn)
		if sf == nil {
			env.sumCache.Store(fn, noSummary{})
			return nil, false
		}
		env.sumCache.Store(fn, sf)
	}
	return sf(in, fn, args, caller), true
}

func (env *Env) findSummary(fn *ssa.Function) summaryFn {
	name := fn.String()
	pkgPath := fnPkgPath(fn)
	// package initialisers of non-gorm packages are skipped (their globals are
	// produced by summaries / the native bridge)
	if fn.Signature.Recv() == nil && fn.Signature.Params().Len() == 0 && (fn.Name() == "init" || strings.HasPrefix(fn.Name(), "init#")) && fn.Parent() == nil {
		if !isGormPath(pkgPath) && !initPkgs[pkgPath] {
			return func(*Interp, *ssa.Function, []Value, *frame) Value { return nil }
		}
		if !isGormPath(pkgPath) && fn.Name() != "init" {
			// init#k of an allow-listed library package: interpreted
			return nil
		}
		if fn.Name() == "init" && fn.Synthetic != "" {
			// gorm package init: runs once per world (dependency order by runInits)
			return func(in *Interp, f *ssa.Function, _ []Value, _ *frame) Value {
				key := "init:" + f.Pkg.Pkg.Path()
				if _, done := in.natives[key]; done {
					return nil
				}
				in.natives[key] = tTrue
				in.runBody(f)
				return nil
			}
		}
	}
	if s, ok := summaries[name]; ok {
		return s
	}
	if strings.HasPrefix(name, rtPkg+".") {
		if s, ok := rtSummaries[fn.Name()]; ok {
			return s
		}
	}
	// database/sql boundary: redirect methods of the pool types to harness code
	if pkgPath == "database/sql" && fn.Signature.Recv() != nil {
		rt := fn.Signature.Recv().Type()
		if p, ok := rt.(*types.Pointer); ok {
			if n, ok := p.Elem().(*types.Named); ok {
				switch n.Obj().Name() {
				case "DB", "Tx", "Stmt", "Rows", "Conn", "Row", "ColumnType":
					target := "Sym_" + n.Obj().Name() + "_" + fn.Name()
					if hf, ok := env.hpkg.Members[target].(*ssa.Function); ok {
						return func(in *Interp, _ *ssa.Function, args []Value, caller *frame) Value {
							return in.call(hf, nil, args, caller)
						}
					}
					return func(in *Interp, f *ssa.Function, args []Value, caller *frame) Value {
						unsupported("database/sql method %s has no harness summary %s", f, target)
						return nil
					}
				}
			}
		}
	}
	if pkgPath == "reflect" {
		if strings.HasPrefix(name, "reflect.TypeFor[") && len(fn.TypeArgs()) == 1 {
			ta := fn.TypeArgs()[0]
			return func(in *Interp, _ *ssa.Function, _ []Value, _ *frame) Value { return in.rtI(ta) }
		}
		if s := reflectSummary(name); s != nil {
			return s
		}
		return func(in *Interp, f *ssa.Function, args []Value, caller *frame) Value {
			unsupported("reflect function not modelled: %s", f)
			return nil
		}
	}
	// methods on native handles (regexp etc.)
	if pkgPath == "regexp" || pkgPath == "github.com/jinzhu/inflection" {
		return nativeBridge
	}
	return nil
}

// runBody executes fn's body without consulting the summary table.
func (in *Interp) runBody(fn *ssa.Function) Value {
	fr := &frame{in: in, fn: fn, locals: newLocals(in.env.info(fn))}
	return fr.run(fn.Blocks[0])
}

func retNil(*Interp, *ssa.Function, []Value, *frame) Value { return nil }

func builderBuf(recv Value) *Value {
	p := recv.(*Value)
	st := (*p).(structV)
	return &st[1]
}

func boolTerm(v Value) *Term { return v.(*Term) }

func (in *Interp) nondet(name string, w int, kind string) *Term {
	in.nondetN[name]++
	t := sym(fmt.Sprintf("%s_%d", name, in.nondetN[name]), w)
	in.nondets = append(in.nondets, nondetRec{name: name, t: t, kind: kind})
	return t
}

var rtSummaries map[string]summaryFn

func init() {
	rtSummaries = map[string]summaryFn{
		"Byte": func(in *Interp, _ *ssa.Function, a []Value, _ *frame) Value {
			return in.nondet(mustStr(a[0], "nondet name"), 8, "byte")
		},
		"Bool": func(in *Interp, _ *ssa.Function, a []Value, _ *frame) Value {
			return in.nondet(mustStr(a[0], "nondet name"), 0, "bool")
		},
		"Int": func(in *Interp, _ *ssa.Function, a []Value, _ *frame) Value {
			return in.nondet(mustStr(a[0], "nondet name"), 64, "int")
		},
		"Int64": func(in *Interp, _ *ssa.Function, a []Value, _ *frame) Value {
			return in.nondet(mustStr(a[0], "nondet name"), 64, "int")
		},
		"Uint64": func(in *Interp, _ *ssa.Function, a []Value, _ *frame) Value {
			return in.nondet(mustStr(a[0], "nondet name"), 64, "uint")
		},
		"Intn": func(in *Interp, _ *ssa.Function, a []Value, _ *frame) Value {
			t := in.nondet(mustStr(a[0], "nondet name"), 64, "int")
			lo, hi := a[1].(*Term), a[2].(*Term)
			in.e.assume(mk("and", 0, mk("bvsle", 0, lo, t), mk("bvsle", 0, t, hi)))
			return t
		},
		"Bytes": func(in *Interp, _ *ssa.Function, a []Value, _ *frame) Value {
			n := in.cint(a[1])
			name := mustStr(a[0], "nondet name")
			r := make(strV, n)
			for i := range r {
				r[i] = in.nondet(name, 8, "byte")
			}
			return r
		},
		"Assume": func(in *Interp, _ *ssa.Function, a []Value, _ *frame) Value {
			in.e.assume(a[0].(*Term))
			return nil
		},
		"Assert": func(in *Interp, _ *ssa.Function, a []Value, _ *frame) Value {
			in.assertT(a[0].(*Term), mustStr(a[1], "assert label"))
			return nil
		},
		"Reach": func(in *Interp, _ *ssa.Function, a []Value, _ *frame) Value {
			in.reached[mustStr(a[0], "reach label")] = true
			return nil
		},
		"Tag": func(in *Interp, _ *ssa.Function, a []Value, _ *frame) Value {
			in.tags = append(in.tags, mustStr(a[0], "tag"))
			return nil
		},
		"Observe": func(in *Interp, _ *ssa.Function, a []Value, _ *frame) Value {
			in.observes = append(in.observes, observeRec{mustStr(a[0], "observe label"), a[1]})
			return nil
		},
		"And": func(in *Interp, _ *ssa.Function, a []Value, _ *frame) Value {
			return mk("and", 0, a[0].(*Term), a[1].(*Term))
		},
		"Or": func(in *Interp, _ *ssa.Function, a []Value, _ *frame) Value {
			return mk("or", 0, a[0].(*Term), a[1].(*Term))
		},
		"Not": func(in *Interp, _ *ssa.Function, a []Value, _ *frame) Value {
			return mkNot(a[0].(*Term))
		},
		"Implies": func(in *Interp, _ *ssa.Function, a []Value, _ *frame) Value {
			return mk("or", 0, mkNot(a[0].(*Term)), a[1].(*Term))
		},
		"Iff": func(in *Interp, _ *ssa.Function, a []Value, _ *frame) Value {
			return mkEq(a[0].(*Term), a[1].(*Term))
		},
		"IteInt": func(in *Interp, _ *ssa.Function, a []Value, _ *frame) Value {
			return mkIte(a[0].(*Term), a[1].(*Term), a[2].(*Term))
		},
		"IteInt64": func(in *Interp, _ *ssa.Function, a []Value, _ *frame) Value {
			return mkIte(a[0].(*Term), a[1].(*Term), a[2].(*Term))
		},
		"IteByte": func(in *Interp, _ *ssa.Function, a []Value, _ *frame) Value {
			return mkIte(a[0].(*Term), a[1].(*Term), a[2].(*Term))
		},
		"IteBool": func(in *Interp, _ *ssa.Function, a []Value, _ *frame) Value {
			return mkIte(a[0].(*Term), a[1].(*Term), a[2].(*Term))
		},
		"EqStr": func(in *Interp, _ *ssa.Function, a []Value, _ *frame) Value {
			return strEq(a[0].(strV), a[1].(strV))
		},
		"EqInt": func(in *Interp, _ *ssa.Function, a []Value, _ *frame) Value {
			return mkEq(a[0].(*Term), a[1].(*Term))
		},
		"LtInt": func(in *Interp, _ *ssa.Function, a []Value, _ *frame) Value {
			return mk("bvslt", 0, a[0].(*Term), a[1].(*Term))
		},
		"LeInt": func(in *Interp, _ *ssa.Function, a []Value, _ *frame) Value {
			return mk("bvsle", 0, a[0].(*Term), a[1].(*Term))
		},
		// SameValue compares two interface values structurally (term-level).
		"SameValue": func(in *Interp, _ *ssa.Function, a []Value, _ *frame) Value {
			return in.sameValue(a[0], a[1])
		},
		// Entails reports (concretely) whether the path condition implies cond.
		"Entails": func(in *Interp, _ *ssa.Function, a []Value, _ *frame) Value {
			c := a[0].(*Term)
			if c.isConst {
				return c
			}
			switch in.e.feasible(mkNot(c)) {
			case "unsat":
				return tTrue
			case "unknown":
				panic(pathAbort{"unknown", "solver unknown in Entails"})
			}
			return tFalse
		},
		// Mentions reports (concretely) whether any byte of the string depends on a
		// nondet symbol whose name starts with prefix (syntactic taint on terms).
		"Mentions": func(in *Interp, _ *ssa.Function, a []Value, _ *frame) Value {
			s := a[0].(strV)
			prefix := mustStr(a[1], "Mentions prefix")
			seen := map[*Term]bool{}
			for _, b := range s {
				if b.mentions(prefix, seen) {
					return tTrue
				}
			}
			return tFalse
		},
		"IsSymbolic": func(in *Interp, _ *ssa.Function, a []Value, _ *frame) Value { return tTrue },
		"Concretize": func(in *Interp, _ *ssa.Function, a []Value, _ *frame) Value {
			t := a[0].(*Term)
			lo, hi := in.cint(a[1]), in.cint(a[2])
			v, ok := in.concretize(t, lo, hi+1)
			if !ok {
				panic(pathAbort{"assume", "Concretize out of range"})
			}
			return bv(64, uint64(v))
		},
		"ConcretizeByte": func(in *Interp, _ *ssa.Function, a []Value, _ *frame) Value {
			t := a[0].(*Term)
			cands := a[1].(strV)
			for _, c := range cands {
				if in.e.branch(mkEq(t, c)) {
					return c
				}
			}
			panic(pathAbort{"assume", "ConcretizeByte: no candidate"})
		},
		"Go": func(in *Interp, _ *ssa.Function, a []Value, c *frame) Value {
			f := a[0]
			in.spawn(func() { in.callFunc(f, nil, nil) })
			return nil
		},
		// Preemptions sets the preemption bound of this world (0 = a thread runs
		// until it blocks or finishes).
		"Preemptions": func(in *Interp, _ *ssa.Function, a []Value, c *frame) Value {
			in.sched().bound = in.cint(a[0])
			in.sched().boundSet = true
			return nil
		},
		// Tier: 0 in the quick tier, 1 in the thorough tier (harnesses widen symbolic ranges there)
		"Tier": func(in *Interp, _ *ssa.Function, a []Value, c *frame) Value {
			return bv(64, uint64(in.env.tierN))
		},
		"ThreadID": func(in *Interp, _ *ssa.Function, a []Value, c *frame) Value {
			if in.cur == nil {
				return bv(64, 0)
			}
			return bv(64, uint64(in.cur.id))
		},
		"Park": func(in *Interp, _ *ssa.Function, a []Value, c *frame) Value {
			in.park()
			return nil
		},
		// SyncMapPoints makes every sync.Map operation a scheduling point of this world.
		"SyncMapPoints": func(in *Interp, _ *ssa.Function, a []Value, c *frame) Value {
			in.sched().syncMapPts = true
			return nil
		},
		// MapRaces watches the maps gorm makes from here on for accesses that no
		// synchronisation orders (race.go).
		"MapRaces": func(in *Interp, _ *ssa.Function, a []Value, c *frame) Value {
			in.hbEnable()
			return nil
		},
		"StartAll": func(in *Interp, _ *ssa.Function, a []Value, c *frame) Value {
			in.schedPoint("start")
			return nil
		},
		// Settle: natively waits (bounded) until background goroutines of the code under
		// test have brought the condition about; under the engine WaitAll already ran them
		"Settle": func(in *Interp, _ *ssa.Function, a []Value, _ *frame) Value { return nil },
		"Yield": func(in *Interp, _ *ssa.Function, a []Value, _ *frame) Value {
			in.schedPoint("yield")
			return nil
		},
		"WaitAll": func(in *Interp, _ *ssa.Function, a []Value, _ *frame) Value {
			in.waitAll()
			return nil
		},
		"ConvertAssign": func(in *Interp, _ *ssa.Function, a []Value, c *frame) Value {
			p := in.prog.ImportedPackage("database/sql")
			if p == nil || p.Func("convertAssign") == nil {
				unsupported("database/sql.convertAssign not loaded")
			}
			return in.call(p.Func("convertAssign"), nil, []Value{a[0], a[1]}, c)
		},
		// Memo caches the (concrete, read-only) result of f across paths and worlds.
	"Memo": func(in *Interp, _ *ssa.Function, a []Value, c *frame) Value {
		key := mustStr(a[0], "Memo key")
		if v, ok := in.env.memo.Load(key); ok {
			return v
		}
		v := in.callFunc(a[1], nil, c)
		in.env.memo.Store(key, v)
		return v
	},
	"Fail": func(in *Interp, _ *ssa.Function, a []Value, _ *frame) Value {
			in.violate(mustStr(a[0], "fail label"), "")
			panic(pathAbort{"violation", "Fail"})
		},
	}
}

func (in *Interp) assertT(c *Term, label string) {
	in.nAsserts++
	if c.isTrue() {
		return
	}
	if sc := in.e.simp(c); sc.isTrue() {
		return
	}
	if c.isFalse() {
		in.violate(label, "assertion is false on this path")
		panic(pathAbort{"violation", label})
	}
	r, model := in.e.solver.checkX([]*Term{mkNot(c)}, in.modelWant(), true)
	switch r {
	case "sat":
		in.recordViolation(label, "", model)
		panic(pathAbort{"violation", label})
	case "unknown":
		panic(pathAbort{"unknown", "solver unknown on assertion " + label})
	}
}

// sameValue: structural equality of two interface values as a term.
func (in *Interp) sameValue(a, b Value) *Term {
	switch x := a.(type) {
	case iface:
		y, ok := b.(iface)
		if !ok {
			return tFalse
		}
		if x.t == nil || y.t == nil {
			return bl(x.t == nil && y.t == nil)
		}
		if !types.Identical(x.t, y.t) {
			return tFalse
		}
		return in.sameValue(x.v, y.v)
	case sliceV:
		y, ok := b.(sliceV)
		if !ok || x.n != y.n {
			return tFalse
		}
		c := tTrue
		for i := 0; i < x.n; i++ {
			c = mk("and", 0, c, in.sameValue(*x.at(i), *y.at(i)))
		}
		return c
	case *Value:
		y, ok := b.(*Value)
		if !ok {
			return tFalse
		}
		if x == nil || y == nil {
			return bl(x == y)
		}
		return in.sameValue(*x, *y)
	case structV:
		y, ok := b.(structV)
		if !ok || len(x) != len(y) {
			return tFalse
		}
		c := tTrue
		for i := range x {
			c = mk("and", 0, c, in.sameValue(x[i], y[i]))
		}
		return c
	case *mapV:
		y, ok := b.(*mapV)
		if !ok {
			return tFalse
		}
		return bl(x == y)
	}
	return valEq(a, b)
}

var errorIfaceT = types.Universe.Lookup("error").Type().Underlying().(*types.Interface)

func lit(ts ...*Term) strV { return strV(ts) }

var summaries map[string]summaryFn

func init() {
	summaries = map[string]summaryFn{
		"gorm.io/gorm/utils.FileWithLineNum": func(in *Interp, _ *ssa.Function, a []Value, _ *frame) Value { return strV{} },
		"gorm.io/gorm/utils.sourceDir":       func(in *Interp, _ *ssa.Function, a []Value, _ *frame) Value { return mkStr("/gorm/") },
		"(golang.org/x/text/cases.Caser).String": func(in *Interp, _ *ssa.Function, a []Value, _ *frame) Value {
			str := mustStr(a[1], "cases.Title")
			if str == "" {
				return strV{}
			}
			return mkStr(strings.ToUpper(str[:1]) + strings.ToLower(str[1:]))
		},
		"gorm.io/gorm/utils.CallerFrame": func(in *Interp, fn *ssa.Function, a []Value, _ *frame) Value {
			return zero(fn.Signature.Results().At(0).Type())
		},
		"internal/reflectlite.TypeOf": func(in *Interp, _ *ssa.Function, a []Value, _ *frame) Value {
			return in.rtI(a[0].(iface).t)
		},
		"go/ast.IsExported": func(in *Interp, _ *ssa.Function, a []Value, _ *frame) Value {
			n := mustStr(a[0], "IsExported")
			return bl(len(n) > 0 && n[0] >= 'A' && n[0] <= 'Z')
		},
		// ---- strings.Builder
		"(*strings.Builder).WriteByte": func(in *Interp, _ *ssa.Function, a []Value, _ *frame) Value {
			buf := builderBuf(a[0])
			*buf = appendVals((*buf).(sliceV), []Value{a[1]})
			return iface{}
		},
		"(*strings.Builder).WriteRune": func(in *Interp, _ *ssa.Function, a []Value, _ *frame) Value {
			buf := builderBuf(a[0])
			r := a[1].(*Term)
			if r.isConst {
				s := mkStr(string(rune(sext(r.c, 32))))
				vs := make([]Value, len(s))
				for i := range s {
					vs[i] = s[i]
				}
				*buf = appendVals((*buf).(sliceV), vs)
				return tupleV{bv(64, uint64(len(s))), iface{}}
			}
			in.requireASCIIRune(r)
			*buf = appendVals((*buf).(sliceV), []Value{resize(r, 8, false)})
			return tupleV{bv(64, 1), iface{}}
		},
		"(*strings.Builder).WriteString": func(in *Interp, _ *ssa.Function, a []Value, _ *frame) Value {
			buf := builderBuf(a[0])
			s := a[1].(strV)
			vs := make([]Value, len(s))
			for i := range s {
				vs[i] = s[i]
			}
			*buf = appendVals((*buf).(sliceV), vs)
			return tupleV{bv(64, uint64(len(s))), iface{}}
		},
		"(*strings.Builder).Write": func(in *Interp, _ *ssa.Function, a []Value, _ *frame) Value {
			buf := builderBuf(a[0])
			s := a[1].(sliceV)
			*buf = appendVals((*buf).(sliceV), append([]Value{}, s.elems()...))
			return tupleV{bv(64, uint64(s.n)), iface{}}
		},
		"(*strings.Builder).String": func(in *Interp, _ *ssa.Function, a []Value, _ *frame) Value {
			b := (*builderBuf(a[0])).(sliceV)
			r := make(strV, b.n)
			for i, e := range b.elems() {
				r[i] = e.(*Term)
			}
			return r
		},
		"(*strings.Builder).Len": func(in *Interp, _ *ssa.Function, a []Value, _ *frame) Value {
			return bv(64, uint64((*builderBuf(a[0])).(sliceV).n))
		},
		"(*strings.Builder).Cap": func(in *Interp, _ *ssa.Function, a []Value, _ *frame) Value {
			return bv(64, uint64((*builderBuf(a[0])).(sliceV).capacity))
		},
		"(*strings.Builder).Grow": retNil,
		"(*strings.Builder).Reset": func(in *Interp, _ *ssa.Function, a []Value, _ *frame) Value {
			*builderBuf(a[0]) = sliceV{}
			return nil
		},
		// ---- strings
		"strings.ToLower": func(in *Interp, _ *ssa.Function, a []Value, _ *frame) Value { return in.caseMap(a[0].(strV), false) },
		"strings.ToUpper": func(in *Interp, _ *ssa.Function, a []Value, _ *frame) Value { return in.caseMap(a[0].(strV), true) },
		"strings.HasPrefix": func(in *Interp, _ *ssa.Function, a []Value, _ *frame) Value {
			s, p := a[0].(strV), a[1].(strV)
			if len(p) > len(s) {
				return tFalse
			}
			return strEq(s[:len(p)], p)
		},
		"strings.HasSuffix": func(in *Interp, _ *ssa.Function, a []Value, _ *frame) Value {
			s, p := a[0].(strV), a[1].(strV)
			if len(p) > len(s) {
				return tFalse
			}
			return strEq(s[len(s)-len(p):], p)
		},
		"strings.Contains": func(in *Interp, _ *ssa.Function, a []Value, _ *frame) Value {
			return containsT(a[0].(strV), a[1].(strV))
		},
		"strings.ContainsRune": func(in *Interp, _ *ssa.Function, a []Value, _ *frame) Value {
			s := a[0].(strV)
			r := a[1].(*Term)
			c := tFalse
			for _, b := range s {
				c = mk("or", 0, c, mkEq(resize(b, 32, false), r))
			}
			return c
		},
		"strings.ContainsAny": func(in *Interp, _ *ssa.Function, a []Value, _ *frame) Value {
			s, chars := a[0].(strV), a[1].(strV)
			c := tFalse
			for _, b := range s {
				for _, ch := range chars {
					c = mk("or", 0, c, mkEq(b, ch))
				}
			}
			return c
		},
		"strings.EqualFold": func(in *Interp, _ *ssa.Function, a []Value, _ *frame) Value {
			return strEq(in.caseMap(a[0].(strV), false), in.caseMap(a[1].(strV), false))
		},
		"strings.Count": func(in *Interp, _ *ssa.Function, a []Value, _ *frame) Value {
			s, sub := a[0].(strV), a[1].(strV)
			if len(sub) != 1 {
				return bv(64, uint64(strings.Count(mustStr(s, "strings.Count"), mustStr(sub, "strings.Count"))))
			}
			n := bv(64, 0)
			for i := range s {
				n = mkIte(mkEq(s[i], sub[0]), mk("bvadd", 64, n, bv(64, 1)), n)
			}
			return n
		},
		"strings.Index": func(in *Interp, _ *ssa.Function, a []Value, _ *frame) Value {
			return in.indexOf(a[0].(strV), a[1].(strV))
		},
		"strings.IndexByte": func(in *Interp, _ *ssa.Function, a []Value, _ *frame) Value {
			return in.indexOf(a[0].(strV), strV{a[1].(*Term)})
		},
		"internal/bytealg.IndexByteString": func(in *Interp, _ *ssa.Function, a []Value, _ *frame) Value {
			return in.indexOf(a[0].(strV), strV{a[1].(*Term)})
		},
		"internal/bytealg.IndexString": func(in *Interp, _ *ssa.Function, a []Value, _ *frame) Value {
			return in.indexOf(a[0].(strV), a[1].(strV))
		},
		"internal/bytealg.CountString": func(in *Interp, _ *ssa.Function, a []Value, _ *frame) Value {
			s := a[0].(strV)
			n := bv(64, 0)
			for i := range s {
				n = mkIte(mkEq(s[i], a[1].(*Term)), mk("bvadd", 64, n, bv(64, 1)), n)
			}
			return n
		},
		"strings.Join": func(in *Interp, _ *ssa.Function, a []Value, _ *frame) Value {
			sl := a[0].(sliceV)
			sep := a[1].(strV)
			r := strV{}
			for i, e := range sl.elems() {
				if i > 0 {
					r = append(r, sep...)
				}
				r = append(r, e.(strV)...)
			}
			return r
		},
		"strings.Repeat": func(in *Interp, _ *ssa.Function, a []Value, _ *frame) Value {
			s := a[0].(strV)
			n := in.cint(a[1])
			r := strV{}
			for i := 0; i < n; i++ {
				r = append(r, s...)
			}
			return r
		},
		"strings.Split": func(in *Interp, _ *ssa.Function, a []Value, _ *frame) Value {
			return in.splitStr(a[0].(strV), a[1].(strV), -1)
		},
		"strings.SplitN": func(in *Interp, _ *ssa.Function, a []Value, _ *frame) Value {
			return in.splitStr(a[0].(strV), a[1].(strV), in.cint(a[2]))
		},
		"strings.TrimSpace": func(in *Interp, _ *ssa.Function, a []Value, _ *frame) Value {
			return in.trimFunc(a[0].(strV), isSpaceT, true, true)
		},
		"strings.Trim": func(in *Interp, _ *ssa.Function, a []Value, _ *frame) Value {
			cut := a[1].(strV)
			return in.trimFunc(a[0].(strV), func(b *Term) *Term { return inSetT(b, cut) }, true, true)
		},
		"strings.TrimLeft": func(in *Interp, _ *ssa.Function, a []Value, _ *frame) Value {
			cut := a[1].(strV)
			return in.trimFunc(a[0].(strV), func(b *Term) *Term { return inSetT(b, cut) }, true, false)
		},
		"strings.TrimRight": func(in *Interp, _ *ssa.Function, a []Value, _ *frame) Value {
			cut := a[1].(strV)
			return in.trimFunc(a[0].(strV), func(b *Term) *Term { return inSetT(b, cut) }, false, true)
		},
		"strings.TrimPrefix": func(in *Interp, _ *ssa.Function, a []Value, _ *frame) Value {
			s, p := a[0].(strV), a[1].(strV)
			if len(p) <= len(s) && in.e.branch(strEq(s[:len(p)], p)) {
				return s[len(p):]
			}
			return s
		},
		"strings.TrimSuffix": func(in *Interp, _ *ssa.Function, a []Value, _ *frame) Value {
			s, p := a[0].(strV), a[1].(strV)
			if len(p) <= len(s) && in.e.branch(strEq(s[len(s)-len(p):], p)) {
				return s[:len(s)-len(p)]
			}
			return s
		},
		"strings.Fields": func(in *Interp, _ *ssa.Function, a []Value, _ *frame) Value {
			return in.fieldsFunc(a[0].(strV), isSpaceT)
		},
		"strings.FieldsFunc": func(in *Interp, _ *ssa.Function, a []Value, caller *frame) Value {
			f := a[1]
			return in.fieldsFunc(a[0].(strV), func(b *Term) *Term {
				return in.callFunc(f, []Value{resize(b, 32, false)}, caller).(*Term)
			})
		},
		"strings.Replace": func(in *Interp, _ *ssa.Function, a []Value, _ *frame) Value {
			return in.replaceStr(a[0].(strV), a[1].(strV), a[2].(strV), in.cint(a[3]))
		},
		"strings.ReplaceAll": func(in *Interp, _ *ssa.Function, a []Value, _ *frame) Value {
			return in.replaceStr(a[0].(strV), a[1].(strV), a[2].(strV), -1)
		},
		"strings.NewReplacer": func(in *Interp, _ *ssa.Function, a []Value, _ *frame) Value {
			var oldnew []string
			for _, e := range a[0].(sliceV).elems() {
				oldnew = append(oldnew, mustStr(e, "NewReplacer"))
			}
			return newCell(handle{strings.NewReplacer(oldnew...)})
		},
		"(*strings.Replacer).Replace": func(in *Interp, _ *ssa.Function, a []Value, _ *frame) Value {
			h := (*(a[0].(*Value))).(handle).obj.(*strings.Replacer)
			return mkStr(h.Replace(mustStr(a[1], "Replacer.Replace")))
		},
		"strings.Title": func(in *Interp, _ *ssa.Function, a []Value, _ *frame) Value {
			return mkStr(strings.Title(mustStr(a[0], "strings.Title")))
		},
		// ---- strconv
		"strconv.Itoa": func(in *Interp, _ *ssa.Function, a []Value, _ *frame) Value {
			return in.itoa(a[0].(*Term), true)
		},
		"strconv.FormatInt": func(in *Interp, _ *ssa.Function, a []Value, _ *frame) Value {
			if in.cint(a[1]) != 10 {
				return mkStr(strconv.FormatInt(int64(in.cint(a[0])), in.cint(a[1])))
			}
			return in.itoa(a[0].(*Term), true)
		},
		"strconv.FormatUint": func(in *Interp, _ *ssa.Function, a []Value, _ *frame) Value {
			if in.cint(a[1]) != 10 {
				return mkStr(strconv.FormatUint(uint64(in.cint(a[0])), in.cint(a[1])))
			}
			return in.itoa(a[0].(*Term), false)
		},
		"strconv.FormatBool": func(in *Interp, _ *ssa.Function, a []Value, _ *frame) Value {
			if in.e.branch(a[0].(*Term)) {
				return mkStr("true")
			}
			return mkStr("false")
		},
		"strconv.FormatFloat": func(in *Interp, _ *ssa.Function, a []Value, _ *frame) Value {
			return mkStr(strconv.FormatFloat(float64(a[0].(fltV)), byte(in.cint(a[1])), in.cint(a[2]), in.cint(a[3])))
		},
		"strconv.Quote": func(in *Interp, _ *ssa.Function, a []Value, _ *frame) Value {
			return mkStr(strconv.Quote(mustStr(a[0], "strconv.Quote")))
		},
		"strconv.Atoi": func(in *Interp, _ *ssa.Function, a []Value, _ *frame) Value {
			return in.atoi(a[0].(strV), 64, true)
		},
		"strconv.ParseInt": func(in *Interp, _ *ssa.Function, a []Value, _ *frame) Value {
			if r, ok := in.parseAtom(a[0].(strV), in.cint(a[2]), true, "ParseInt"); ok && (in.cint(a[1]) == 10 || in.cint(a[1]) == 0) {
				return r
			}
			s := mustStr(a[0], "ParseInt")
			n, err := strconv.ParseInt(s, in.cint(a[1]), in.cint(a[2]))
			if err != nil {
				return tupleV{bv(64, uint64(n)), in.newError(mkStr(err.Error()))}
			}
			return tupleV{bv(64, uint64(n)), iface{}}
		},
		"strconv.ParseUint": func(in *Interp, _ *ssa.Function, a []Value, _ *frame) Value {
			if r, ok := in.parseAtom(a[0].(strV), in.cint(a[2]), false, "ParseUint"); ok && (in.cint(a[1]) == 10 || in.cint(a[1]) == 0) {
				return r
			}
			s := mustStr(a[0], "ParseUint")
			n, err := strconv.ParseUint(s, in.cint(a[1]), in.cint(a[2]))
			if err != nil {
				return tupleV{bv(64, n), in.newError(mkStr(err.Error()))}
			}
			return tupleV{bv(64, n), iface{}}
		},
		"strconv.ParseFloat": func(in *Interp, _ *ssa.Function, a []Value, _ *frame) Value {
			s := mustStr(a[0], "ParseFloat")
			n, err := strconv.ParseFloat(s, in.cint(a[1]))
			if err != nil {
				return tupleV{fltV(n), in.newError(mkStr(err.Error()))}
			}
			return tupleV{fltV(n), iface{}}
		},
		"strconv.ParseBool": func(in *Interp, _ *ssa.Function, a []Value, _ *frame) Value {
			s := mustStr(a[0], "ParseBool")
			b, err := strconv.ParseBool(s)
			if err != nil {
				return tupleV{tFalse, in.newError(mkStr(err.Error()))}
			}
			return tupleV{bl(b), iface{}}
		},
		// ---- sort
		"sort.Slice": func(in *Interp, _ *ssa.Function, a []Value, c *frame) Value {
			in.sortByUnstable(a[0].(iface).v.(sliceV), a[1], c)
			return nil
		},
		"sort.SliceStable": func(in *Interp, _ *ssa.Function, a []Value, c *frame) Value {
			in.sortBy(a[0].(iface).v.(sliceV), a[1], c)
			return nil
		},
		"sort.Strings": func(in *Interp, _ *ssa.Function, a []Value, c *frame) Value {
			sl := a[0].(sliceV)
			in.sortWith(sl, func(i, j int) *Term { return strLess((*sl.at(i)).(strV), (*sl.at(j)).(strV)) })
			return nil
		},
		"sort.Ints": func(in *Interp, _ *ssa.Function, a []Value, c *frame) Value {
			sl := a[0].(sliceV)
			in.sortWith(sl, func(i, j int) *Term { return mk("bvslt", 0, (*sl.at(i)).(*Term), (*sl.at(j)).(*Term)) })
			return nil
		},
		// ---- errors / fmt
		"errors.New": func(in *Interp, _ *ssa.Function, a []Value, _ *frame) Value { return in.newError(a[0].(strV)) },
		"errors.Is":  func(in *Interp, _ *ssa.Function, a []Value, c *frame) Value { return in.errorsIs(a[0], a[1], c) },
		"errors.As":  func(in *Interp, _ *ssa.Function, a []Value, c *frame) Value { return in.errorsAs(a[0], a[1], c) },
		"fmt.Errorf": func(in *Interp, _ *ssa.Function, a []Value, c *frame) Value {
			va := a[1].(sliceV)
			var inner Value
			for _, e := range va.elems() {
				if ei, ok := e.(iface); ok && ei.t != nil && types.Implements(ei.t, errorIfaceT) {
					inner = ei
				}
			}
			format := mustStr(a[0], "Errorf format")
			// error *texts* that embed symbolic values are not modelled (only the
			// identity / wrapping of errors is): fall back to the raw format
			msg := func() (m strV) {
				defer func() {
					if r := recover(); r != nil {
						if pa, ok := r.(pathAbort); ok && pa.kind == "unsupported" {
							m = mkStr(format)
							return
						}
						panic(r)
					}
				}()
				return in.sprintf(format, va.elems(), c)
			}()
			if inner != nil && strings.Contains(format, "%w") {
				return in.errorIface("fmt", "wrapError", msg, inner)
			}
			return in.newError(msg)
		},
		"fmt.Sprintf": func(in *Interp, _ *ssa.Function, a []Value, c *frame) Value {
			return in.sprintf(mustStr(a[0], "Sprintf format"), a[1].(sliceV).elems(), c)
		},
		"fmt.Sprint": func(in *Interp, _ *ssa.Function, a []Value, c *frame) Value {
			r := strV{}
			for _, e := range a[0].(sliceV).elems() {
				r = append(r, in.sprintf("%v", []Value{e}, c)...)
			}
			return r
		},
		"fmt.Println":           retNilTuple,
		"fmt.Printf":            retNilTuple,
		"fmt.Print":             retNilTuple,
		"fmt.Fprintf":           retNilTuple,
		"fmt.Fprintln":          retNilTuple,
		"log.New":               func(in *Interp, fn *ssa.Function, a []Value, _ *frame) Value { return newCell(handle{"logger"}) },
		"(*log.Logger).Printf":  retNil,
		"(*log.Logger).Println": retNil,
		"(*log.Logger).Print":   retNil,
		// ---- sync
		"(*sync.Mutex).Lock": func(in *Interp, _ *ssa.Function, a []Value, _ *frame) Value {
			in.mutexOp(a[0].(*Value), "Lock")
			return nil
		},
		"(*sync.Mutex).Unlock": func(in *Interp, _ *ssa.Function, a []Value, _ *frame) Value {
			in.mutexOp(a[0].(*Value), "Unlock")
			return nil
		},
		"(*sync.RWMutex).Lock": func(in *Interp, _ *ssa.Function, a []Value, _ *frame) Value {
			in.mutexOp(a[0].(*Value), "Lock")
			return nil
		},
		"(*sync.RWMutex).Unlock": func(in *Interp, _ *ssa.Function, a []Value, _ *frame) Value {
			in.mutexOp(a[0].(*Value), "Unlock")
			return nil
		},
		"(*sync.RWMutex).RLock": func(in *Interp, _ *ssa.Function, a []Value, _ *frame) Value {
			in.mutexOp(a[0].(*Value), "RLock")
			return nil
		},
		"(*sync.RWMutex).RUnlock": func(in *Interp, _ *ssa.Function, a []Value, _ *frame) Value {
			in.mutexOp(a[0].(*Value), "RUnlock")
			return nil
		},
		"(*sync.Once).Do": func(in *Interp, _ *ssa.Function, a []Value, c *frame) Value {
			p := a[0].(*Value)
			if !in.onceDone[p] {
				in.onceDone[p] = true
				in.callFunc(a[1], nil, c)
				in.hbRelease(p)
			}
			in.hbAcquire(p)
			return nil
		},
		// sync.Pool: items that were Put are handed out again (LIFO), like the
		// per-P private slot of the real pool on a single goroutine
		"(*sync.Pool).Get": func(in *Interp, _ *ssa.Function, a []Value, c *frame) Value {
			p := a[0].(*Value)
			key := "pool:" + fmt.Sprintf("%p", p)
			in.hbAcquire(p)
			if st, ok := in.natives[key].(sliceV); ok && st.n > 0 {
				v := *st.at(st.n - 1)
				st.n--
				in.natives[key] = st
				return v
			}
			st := (*p).(structV)
			newf := st[len(st)-1]
			if _, isNil := newf.(nilV); isNil {
				return iface{}
			}
			return in.callFunc(newf, nil, c)
		},
		"(*sync.Pool).Put": func(in *Interp, _ *ssa.Function, a []Value, c *frame) Value {
			p := a[0].(*Value)
			key := "pool:" + fmt.Sprintf("%p", p)
			st, _ := in.natives[key].(sliceV)
			in.natives[key] = appendVals(st, []Value{a[1]})
			in.hbRelease(p)
			return nil
		},
		"(*sync.WaitGroup).Add": func(in *Interp, _ *ssa.Function, a []Value, _ *frame) Value {
			p := a[0].(*Value)
			n, _ := in.natives["wg:"+fmt.Sprintf("%p", p)].(*Term)
			if n == nil {
				n = bv(64, 0)
			}
			in.natives["wg:"+fmt.Sprintf("%p", p)] = mk("bvadd", 64, n, a[1].(*Term))
			return nil
		},
		"(*sync.WaitGroup).Done": func(in *Interp, _ *ssa.Function, a []Value, _ *frame) Value {
			p := a[0].(*Value)
			n := in.natives["wg:"+fmt.Sprintf("%p", p)].(*Term)
			in.natives["wg:"+fmt.Sprintf("%p", p)] = mk("bvsub", 64, n, bv(64, 1))
			in.hbRelease(p)
			in.schedPoint("wg.Done")
			return nil
		},
		"(*sync.WaitGroup).Wait": func(in *Interp, _ *ssa.Function, a []Value, _ *frame) Value {
			p := a[0].(*Value)
			key := "wg:" + fmt.Sprintf("%p", p)
			in.block(func() bool {
				n, _ := in.natives[key].(*Term)
				return n == nil || (n.isConst && n.c == 0)
			}, "WaitGroup.Wait")
			in.hbAcquire(p)
			return nil
		},
		"(*sync.Map).Load":        syncMapOp,
		"(*sync.Map).Store":       syncMapOp,
		"(*sync.Map).LoadOrStore": syncMapOp,
		"(*sync.Map).Delete":      syncMapOp,
		"(*sync.Map).Range":       syncMapOp,
		// ---- atomics (single running thread between scheduling points)
		"sync/atomic.AddInt32":  atomicAdd,
		"sync/atomic.AddInt64":  atomicAdd,
		"sync/atomic.AddUint32": atomicAdd,
		"sync/atomic.AddUint64": atomicAdd,
		"sync/atomic.LoadInt32": atomicLoad, "sync/atomic.LoadInt64": atomicLoad, "sync/atomic.LoadUint32": atomicLoad, "sync/atomic.LoadUint64": atomicLoad, "sync/atomic.LoadPointer": atomicLoad,
		"sync/atomic.StoreInt32": atomicStore, "sync/atomic.StoreInt64": atomicStore, "sync/atomic.StoreUint32": atomicStore, "sync/atomic.StoreUint64": atomicStore,
		"sync/atomic.CompareAndSwapInt32": atomicCAS, "sync/atomic.CompareAndSwapInt64": atomicCAS, "sync/atomic.CompareAndSwapUint32": atomicCAS, "sync/atomic.CompareAndSwapUint64": atomicCAS,
		// ---- context
		"context.Background": func(in *Interp, fn *ssa.Function, a []Value, _ *frame) Value { return in.backgroundCtx() },
		"context.TODO":       func(in *Interp, fn *ssa.Function, a []Value, _ *frame) Value { return in.backgroundCtx() },
		// ---- time
		"time.Now": func(in *Interp, fn *ssa.Function, a []Value, _ *frame) Value {
			// wall: no monotonic reading; ext: seconds since year 1. 2024-01-01T00:00:00Z + tick.
			in.timeTick++
			secs := int64(63839664000) + int64(in.timeTick)
			return structV{bv(64, 0), bv(64, uint64(secs)), (*Value)(nil)}
		},
		"time.Since": func(in *Interp, fn *ssa.Function, a []Value, _ *frame) Value { return bv(64, 1000) },
		"(time.Time).Format": func(in *Interp, fn *ssa.Function, a []Value, _ *frame) Value {
			return mkStr("<time>")
		},
		"(time.Time).String": func(in *Interp, fn *ssa.Function, a []Value, _ *frame) Value { return mkStr("<time>") },
		"hash/maphash.MakeSeed": func(in *Interp, fn *ssa.Function, a []Value, _ *frame) Value {
			return zero(fn.Signature.Results().At(0).Type())
		},
		"(*hash/maphash.Hash).Sum64": func(in *Interp, fn *ssa.Function, a []Value, _ *frame) Value {
			// a fresh, distinct value per call (concrete: hash collisions between
			// save-point names are outside every claim)
			in.timeTick++
			return bv(64, uint64(7000+in.timeTick))
		},
		"(*hash/maphash.Hash).SetSeed":     retNil,
		"(*hash/maphash.Hash).WriteString": retNilTuple,
		"runtime.Caller": func(in *Interp, fn *ssa.Function, a []Value, _ *frame) Value {
			return tupleV{bv(64, 0), strV{}, bv(64, 0), tFalse}
		},
		"runtime.Callers": func(in *Interp, fn *ssa.Function, a []Value, _ *frame) Value { return bv(64, 0) },
		"os.Getenv":       func(in *Interp, fn *ssa.Function, a []Value, _ *frame) Value { return strV{} },
		"unicode.IsSpace": func(in *Interp, fn *ssa.Function, a []Value, _ *frame) Value {
			r := a[0].(*Term)
			return isSpaceT(r)
		},
		"unicode.IsUpper": func(in *Interp, fn *ssa.Function, a []Value, _ *frame) Value {
			r := a[0].(*Term)
			return mk("and", 0, mk("bvule", 0, bv(r.w, 'A'), r), mk("bvule", 0, r, bv(r.w, 'Z')))
		},
		"unicode.IsLower": func(in *Interp, fn *ssa.Function, a []Value, _ *frame) Value {
			r := a[0].(*Term)
			return mk("and", 0, mk("bvule", 0, bv(r.w, 'a'), r), mk("bvule", 0, r, bv(r.w, 'z')))
		},
		"unicode.IsLetter": func(in *Interp, fn *ssa.Function, a []Value, _ *frame) Value {
			r := a[0].(*Term)
			if r.isConst {
				return bl(isLetterRune(rune(r.c)))
			}
			in.requireASCIIRune(r)
			lo := mk("bvor", r.w, r, bv(r.w, 0x20))
			return mk("and", 0, mk("bvule", 0, bv(r.w, 'a'), lo), mk("bvule", 0, lo, bv(r.w, 'z')))
		},
		"unicode.IsDigit": func(in *Interp, fn *ssa.Function, a []Value, _ *frame) Value {
			r := a[0].(*Term)
			return mk("and", 0, mk("bvule", 0, bv(r.w, '0'), r), mk("bvule", 0, r, bv(r.w, '9')))
		},
		"unicode.IsNumber": func(in *Interp, fn *ssa.Function, a []Value, _ *frame) Value {
			r := a[0].(*Term)
			return mk("and", 0, mk("bvule", 0, bv(r.w, '0'), r), mk("bvule", 0, r, bv(r.w, '9')))
		},
		"unicode.ToUpper": func(in *Interp, fn *ssa.Function, a []Value, _ *frame) Value {
			r := a[0].(*Term)
			isLow := mk("and", 0, mk("bvule", 0, bv(r.w, 'a'), r), mk("bvule", 0, r, bv(r.w, 'z')))
			return mkIte(isLow, mk("bvsub", r.w, r, bv(r.w, 32)), r)
		},
		"unicode.ToLower": func(in *Interp, fn *ssa.Function, a []Value, _ *frame) Value {
			r := a[0].(*Term)
			isUp := mk("and", 0, mk("bvule", 0, bv(r.w, 'A'), r), mk("bvule", 0, r, bv(r.w, 'Z')))
			return mkIte(isUp, mk("bvadd", r.w, r, bv(r.w, 32)), r)
		},
		"regexp.MustCompile": func(in *Interp, fn *ssa.Function, a []Value, _ *frame) Value {
			return newCell(handle{regexp.MustCompile(mustStr(a[0], "regexp"))})
		},
	}
}

func isLetterRune(r rune) bool {
	return (r >= 'a' && r <= 'z') || (r >= 'A' && r <= 'Z')
}

func retNilTuple(in *Interp, fn *ssa.Function, a []Value, _ *frame) Value {
	return zeroResults(fn.Signature.Results())
}

func (in *Interp) backgroundCtx() Value {
	// context.backgroundCtx{emptyCtx{}}
	p := in.prog.ImportedPackage("context")
	t := p.Type("backgroundCtx").Type()
	return iface{t: t, v: zero(t)}
}

func isSpaceT(b *Term) *Term {
	w := b.w
	return mkOr(mkEq(b, bv(w, ' ')), mkEq(b, bv(w, '\t')), mkEq(b, bv(w, '\n')), mkEq(b, bv(w, '\r')), mkEq(b, bv(w, '\v')), mkEq(b, bv(w, '\f')))
}

func inSetT(b *Term, set strV) *Term {
	c := tFalse
	for _, s := range set {
		c = mk("or", 0, c, mkEq(b, s))
	}
	return c
}

func (in *Interp) caseMap(src strV, upper bool) strV {
	r := make(strV, len(src))
	for i, b := range src {
		if b.isConst {
			if upper {
				r[i] = bv(8, uint64(strings.ToUpper(string([]byte{byte(b.c)}))[0]))
			} else {
				r[i] = bv(8, uint64(strings.ToLower(string([]byte{byte(b.c)}))[0]))
			}
			if b.c >= 0x80 {
				r[i] = b
			}
		} else if upper {
			isLow := mk("and", 0, mk("bvule", 0, bv(8, 'a'), b), mk("bvule", 0, b, bv(8, 'z')))
			r[i] = mkIte(isLow, mk("bvsub", 8, b, bv(8, 32)), b)
		} else {
			isUp := mk("and", 0, mk("bvule", 0, bv(8, 'A'), b), mk("bvule", 0, b, bv(8, 'Z')))
			r[i] = mkIte(isUp, mk("bvadd", 8, b, bv(8, 32)), b)
		}
	}
	return r
}

func containsT(s, sub strV) *Term {
	if len(sub) == 0 {
		return tTrue
	}
	r := tFalse
	for i := 0; i+len(sub) <= len(s); i++ {
		r = mk("or", 0, r, strEq(s[i:i+len(sub)], sub))
	}
	return r
}

// indexOf returns the first index of sub in s as a term (-1 if absent).
func (in *Interp) indexOf(s, sub strV) Value {
	res := bv(64, ^uint64(0))
	for i := len(s) - len(sub); i >= 0; i-- {
		res = mkIte(strEq(s[i:i+len(sub)], sub), bv(64, uint64(i)), res)
	}
	return res
}

// splitStr splits s around sep; symbolic matches are decided by forking.
func (in *Interp) splitStr(s, sep strV, n int) Value {
	var parts []Value
	if len(sep) == 0 {
		for _, b := range s {
			parts = append(parts, strV{b})
		}
		return sliceOfVals(parts)
	}
	if n == 0 {
		return sliceV{}
	}
	start := 0
	i := 0
	for i+len(sep) <= len(s) {
		if n > 0 && len(parts) == n-1 {
			break
		}
		if in.e.branch(strEq(s[i:i+len(sep)], sep)) {
			parts = append(parts, s[start:i:i])
			i += len(sep)
			start = i
		} else {
			i++
		}
	}
	parts = append(parts, s[start:])
	return sliceOfVals(parts)
}

func (in *Interp) trimFunc(s strV, f func(*Term) *Term, left, right bool) Value {
	lo, hi := 0, len(s)
	if left {
		for lo < hi && in.e.branch(f(s[lo])) {
			lo++
		}
	}
	if right {
		for hi > lo && in.e.branch(f(s[hi-1])) {
			hi--
		}
	}
	return s[lo:hi:hi]
}

func (in *Interp) fieldsFunc(s strV, f func(*Term) *Term) Value {
	var parts []Value
	start := -1
	for i := 0; i < len(s); i++ {
		if in.e.branch(f(s[i])) {
			if start >= 0 {
				parts = append(parts, s[start:i:i])
				start = -1
			}
		} else if start < 0 {
			start = i
		}
	}
	if start >= 0 {
		parts = append(parts, s[start:])
	}
	return sliceOfVals(parts)
}

func (in *Interp) replaceStr(s, old, new strV, n int) Value {
	if len(old) == 0 {
		str := mustStr(s, "strings.Replace")
		return mkStr(strings.Replace(str, "", mustStr(new, "strings.Replace"), n))
	}
	r := strV{}
	i := 0
	cnt := 0
	for i < len(s) {
		if (n < 0 || cnt < n) && i+len(old) <= len(s) && in.e.branch(strEq(s[i:i+len(old)], old)) {
			r = append(r, new...)
			i += len(old)
			cnt++
		} else {
			r = append(r, s[i])
			i++
		}
	}
	return r
}

// itoa formats an integer; symbolic values are case-split by digit count and
// the digits are computed by division (exact for |v| < 10^4, else unsupported).
func (in *Interp) itoa(t *Term, signed bool) Value {
	if t.isConst {
		if signed {
			return mkStr(strconv.FormatInt(sext(t.c, t.w), 10))
		}
		return mkStr(strconv.FormatUint(t.c, 10))
	}
	return strV{decAtom(resize(t, 64, signed), signed)}
}

// parseAtom parses a string that is one formatted symbolic integer.
func (in *Interp) parseAtom(s strV, bits int, wantSigned bool, fname string) (Value, bool) {
	if len(s) != 1 || s[0].op != "dec" {
		if hasAtom(s) {
			unsupported("%s of a string holding a formatted symbolic integer among other text", fname)
		}
		return nil, false
	}
	a := s[0]
	t := a.args[0]
	rangeErr := func() iface {
		return in.errorIface("strconv", "NumError", mkStr(fname), s, in.newError(mkStr("value out of range")))
	}
	synErr := func() iface {
		return in.errorIface("strconv", "NumError", mkStr(fname), s, in.newError(mkStr("invalid syntax")))
	}
	if bits == 0 {
		bits = 64
	}
	if wantSigned {
		if a.p1 == 0 { // unsigned rendering parsed as signed: must fit
			lim := bv(64, uint64(1)<<uint(bits-1))
			if !in.e.branch(mk("bvult", 0, t, lim)) {
				return tupleV{bv(64, uint64(1)<<uint(bits-1)-1), rangeErr()}, true
			}
			return tupleV{t, iface{}}, true
		}
		if bits < 64 {
			lo := bv(64, uint64(-(int64(1) << uint(bits-1))))
			hi := bv(64, uint64(int64(1)<<uint(bits-1)-1))
			if !in.e.branch(mk("and", 0, mk("bvsle", 0, lo, t), mk("bvsle", 0, t, hi))) {
				return tupleV{t, rangeErr()}, true
			}
		}
		return tupleV{t, iface{}}, true
	}
	// unsigned parse
	if a.p1 == 1 {
		if in.e.branch(mk("bvslt", 0, t, bv(64, 0))) {
			return tupleV{bv(64, 0), synErr()}, true // leading '-'
		}
	}
	if bits < 64 {
		if !in.e.branch(mk("bvule", 0, t, bv(64, uint64(1)<<uint(bits)-1))) {
			return tupleV{bv(64, uint64(1)<<uint(bits)-1), rangeErr()}, true
		}
	}
	return tupleV{t, iface{}}, true
}

func (in *Interp) atoi(s strV, bits int, signed bool) Value {
	if r, ok := in.parseAtom(s, bits, signed, "Atoi"); ok {
		return r
	}
	numErr := func() iface {
		return in.errorIface("strconv", "NumError", mkStr("Atoi"), s, in.newError(mkStr("invalid syntax")))
	}
	if str, ok := concrete(s); ok {
		n, err := strconv.Atoi(str)
		if err != nil {
			return tupleV{bv(64, uint64(n)), numErr()}
		}
		return tupleV{bv(64, uint64(n)), iface{}}
	}
	// a concrete non-digit byte (other than a leading sign) decides the outcome
	for i, b := range s {
		if b.isConst {
			c := byte(b.c)
			if (c < '0' || c > '9') && !(i == 0 && len(s) > 1 && (c == '+' || c == '-')) {
				return tupleV{bv(64, 0), numErr()}
			}
		}
	}
	if len(s) == 0 || len(s) > 18 {
		if len(s) == 0 {
			return tupleV{bv(64, 0), numErr()}
		}
		unsupported("Atoi of long symbolic string")
	}
	// all digits?
	c := tTrue
	for _, b := range s {
		c = mk("and", 0, c, mk("and", 0, mk("bvule", 0, bv(8, '0'), b), mk("bvule", 0, b, bv(8, '9'))))
	}
	if in.e.branch(c) {
		v := bv(64, 0)
		for _, b := range s {
			v = mk("bvadd", 64, mk("bvmul", 64, v, bv(64, 10)), resize(mk("bvsub", 8, b, bv(8, '0')), 64, false))
		}
		return tupleV{v, iface{}}
	}
	// sign prefix followed by digits
	if len(s) > 1 {
		c2 := mk("or", 0, mkEq(s[0], bv(8, '+')), mkEq(s[0], bv(8, '-')))
		for _, b := range s[1:] {
			c2 = mk("and", 0, c2, mk("and", 0, mk("bvule", 0, bv(8, '0'), b), mk("bvule", 0, b, bv(8, '9'))))
		}
		if in.e.branch(c2) {
			v := bv(64, 0)
			for _, b := range s[1:] {
				v = mk("bvadd", 64, mk("bvmul", 64, v, bv(64, 10)), resize(mk("bvsub", 8, b, bv(8, '0')), 64, false))
			}
			return tupleV{mkIte(mkEq(s[0], bv(8, '-')), mk("bvsub", 64, bv(64, 0), v), v), iface{}}
		}
	}
	// underscores etc. are invalid for base 10
	return tupleV{bv(64, 0), numErr()}
}

func (in *Interp) sortWith(sl sliceV, less func(i, j int) *Term) {
	for i := 1; i < sl.n; i++ {
		for j := i; j > 0; j-- {
			if !in.e.branch(less(j, j-1)) {
				break
			}
			a := *sl.a
			a[sl.off+j], a[sl.off+j-1] = a[sl.off+j-1], a[sl.off+j]
		}
	}
}

func (in *Interp) sortBy(sl sliceV, less Value, caller *frame) {
	in.sortWith(sl, func(i, j int) *Term {
		return in.callFunc(less, []Value{bv(64, uint64(i)), bv(64, uint64(j))}, caller).(*Term)
	})
}

// sortByUnstable models sort.Slice by its contract ("not guaranteed to be
// stable"): the elements are sorted and every run of equal elements comes out
// in reverse of its input order - a permutation the real implementation is
// free to produce. Up to 12 elements the real implementation is an insertion
// sort; the model follows it there, so that short inputs replay natively.
func (in *Interp) sortByUnstable(sl sliceV, less Value, caller *frame) {
	lt := func(i, j int) *Term {
		return in.callFunc(less, []Value{bv(64, uint64(i)), bv(64, uint64(j))}, caller).(*Term)
	}
	in.sortWith(sl, lt)
	if sl.n <= 12 {
		return // the real implementation sorts up to 12 elements by insertion (stable in effect)
	}
	a := *sl.a
	for start := 0; start < sl.n; {
		end := start
		for end+1 < sl.n && !in.e.branch(lt(end, end+1)) {
			end++
		}
		for i, j := start, end; i < j; i, j = i+1, j-1 {
			a[sl.off+i], a[sl.off+j] = a[sl.off+j], a[sl.off+i]
		}
		start = end + 1
	}
}

func (in *Interp) errorsIs(ev, tv Value, caller *frame) Value {
	e, target := ev.(iface), tv.(iface)
	if target.t == nil {
		return bl(e.t == nil)
	}
	res := tFalse
	for depth := 0; e.t != nil && depth < 16; depth++ {
		if types.Comparable(e.t) || true {
			eq := func() (t *Term) {
				defer func() {
					if r := recover(); r != nil {
						if pa, ok := r.(pathAbort); ok && pa.kind == "unsupported" {
							t = tFalse
							return
						}
						panic(r)
					}
				}()
				return valEq(e, target)
			}()
			res = mk("or", 0, res, eq)
			if res.isTrue() {
				return res
			}
		}
		if m := in.lookupMethod(e.t, nil, "Is"); m != nil {
			r := in.call(m, nil, []Value{e.v, target}, caller).(*Term)
			res = mk("or", 0, res, r)
			if res.isTrue() {
				return res
			}
		}
		m := in.lookupMethod(e.t, nil, "Unwrap")
		if m == nil {
			break
		}
		next, ok := in.call(m, nil, []Value{e.v}, caller).(iface)
		if !ok {
			break // Unwrap() []error not followed
		}
		e = next
	}
	return res
}

func (in *Interp) errorsAs(ev, tv Value, caller *frame) Value {
	e := ev.(iface)
	tp := tv.(iface)
	ptrT := tp.t.(*types.Pointer)
	targetT := ptrT.Elem()
	cell := tp.v.(*Value)
	for depth := 0; e.t != nil && depth < 16; depth++ {
		if it, ok := targetT.Underlying().(*types.Interface); ok {
			if types.Implements(e.t, it) {
				storeVal(cell, e)
				return tTrue
			}
		} else if types.Identical(e.t, targetT) {
			storeVal(cell, e.v)
			return tTrue
		}
		m := in.lookupMethod(e.t, nil, "Unwrap")
		if m == nil {
			break
		}
		next, ok := in.call(m, nil, []Value{e.v}, caller).(iface)
		if !ok {
			break
		}
		e = next
	}
	return tFalse
}

func syncMapOp(in *Interp, fn *ssa.Function, a []Value, caller *frame) Value {
	if in.ss != nil && in.ss.syncMapPts {
		in.schedPoint("sync.Map." + fn.Name())
	}
	key := a[0].(*Value)
	m := in.syncMaps[key]
	if m == nil {
		m = &mapV{}
		in.syncMaps[key] = m
	}
	switch fn.Name() {
	case "Load":
		v, ok := in.mapGet(m, a[1])
		if !ok {
			v = iface{}
			in.hbAcquire(syncMapMiss{m})
		} else {
			in.hbAcquire(syncMapKey{m, in.mapIndex(m, a[1])})
		}
		return tupleV{v, bl(ok)}
	case "Store":
		in.mapSet(m, a[1], a[2])
		in.hbRelease(syncMapKey{m, in.mapIndex(m, a[1])})
		return nil
	case "LoadOrStore":
		if v, ok := in.mapGet(m, a[1]); ok {
			in.hbAcquire(syncMapKey{m, in.mapIndex(m, a[1])})
			return tupleV{v, tTrue}
		}
		in.hbAcquire(syncMapMiss{m})
		in.mapSet(m, a[1], a[2])
		in.hbRelease(syncMapKey{m, in.mapIndex(m, a[1])})
		return tupleV{a[2], tFalse}
	case "Delete":
		for i := range m.keys {
			if in.keyEq(m.keys[i], a[1]) {
				m.keys = append(append([]Value{}, m.keys[:i]...), m.keys[i+1:]...)
				m.vals = append(append([]Value{}, m.vals[:i]...), m.vals[i+1:]...)
				in.hbSyncMapDeleted(m, i)
				break
			}
		}
		return nil
	case "Range":
		keys := append([]Value{}, m.keys...)
		vals := append([]Value{}, m.vals...)
		for i := range keys {
			in.hbAcquire(syncMapKey{m, i})
			r := in.callFunc(a[1], []Value{keys[i], vals[i]}, caller)
			if !in.e.branch(r.(*Term)) {
				break
			}
		}
		return nil
	}
	panic("syncMapOp " + fn.Name())
}

func atomicAdd(in *Interp, fn *ssa.Function, a []Value, _ *frame) Value {
	p := a[0].(*Value)
	t := (*p).(*Term)
	n := mk("bvadd", t.w, t, a[1].(*Term))
	*p = n
	in.hbAcquire(p)
	in.hbRelease(p)
	return n
}
func atomicLoad(in *Interp, fn *ssa.Function, a []Value, _ *frame) Value {
	in.hbAcquire(a[0].(*Value))
	return *(a[0].(*Value))
}
func atomicStore(in *Interp, fn *ssa.Function, a []Value, _ *frame) Value {
	*(a[0].(*Value)) = a[1]
	in.hbAcquire(a[0].(*Value))
	in.hbRelease(a[0].(*Value))
	return nil
}
func atomicCAS(in *Interp, fn *ssa.Function, a []Value, _ *frame) Value {
	p := a[0].(*Value)
	t := (*p).(*Term)
	in.hbAcquire(p)
	if in.e.branch(mkEq(t, a[1].(*Term))) {
		*p = a[2]
		in.hbRelease(p)
		return tTrue
	}
	return tFalse
}

// ---- fmt

func (in *Interp) toNative(v Value, caller *frame) interface{} {
	switch x := v.(type) {
	case iface:
		if x.t == nil {
			return nil
		}
		if types.Implements(x.t, errorIfaceT) {
			if m := in.lookupMethod(x.t, nil, "Error"); m != nil {
				s := in.call(m, nil, []Value{x.v}, caller)
				return fmt.Errorf("%s", mustStr(s, "error text"))
			}
		}
		if m := in.lookupMethod(x.t, nil, "String"); m != nil && m.Signature.Params().Len() == 0 && m.Signature.Results().Len() == 1 {
			if b, ok := m.Signature.Results().At(0).Type().Underlying().(*types.Basic); ok && b.Kind() == types.String {
				s := in.call(m, nil, []Value{x.v}, caller)
				return stringer(mustStr(s, "String()"))
			}
		}
		return in.toNativeTyped(x.v, x.t, caller)
	}
	return in.toNativeTyped(v, nil, caller)
}

type stringer string

func (s stringer) String() string { return string(s) }

func (in *Interp) toNativeTyped(v Value, t types.Type, caller *frame) interface{} {
	switch x := v.(type) {
	case *Term:
		if !x.isConst {
			unsupported("symbolic value in fmt")
		}
		if x.w == 0 {
			return x.c != 0
		}
		if t != nil {
			if b, ok := t.Underlying().(*types.Basic); ok {
				switch b.Kind() {
				case types.Uint, types.Uint8, types.Uint16, types.Uint32, types.Uint64, types.Uintptr:
					return x.c
				}
			}
		}
		return sext(x.c, x.w)
	case fltV:
		return float64(x)
	case strV:
		s, ok := concrete(x)
		if !ok {
			unsupported("symbolic string in fmt")
		}
		return s
	case sliceV:
		if t != nil {
			if st, ok := t.Underlying().(*types.Slice); ok {
				if b, ok := st.Elem().Underlying().(*types.Basic); ok && b.Kind() == types.Uint8 {
					bs := make([]byte, x.n)
					for i, e := range x.elems() {
						bs[i] = byte(in.cint(e))
					}
					return bs
				}
			}
		}
		r := make([]interface{}, x.n)
		var et types.Type
		if t != nil {
			if st, ok := t.Underlying().(*types.Slice); ok {
				et = st.Elem()
			}
		}
		for i, e := range x.elems() {
			if _, isI := e.(iface); isI {
				r[i] = in.toNative(e, caller)
			} else {
				r[i] = in.toNativeTyped(e, et, caller)
			}
		}
		return r
	case *Value:
		if x == nil {
			return nil
		}
		return fmt.Sprintf("0xc%06x", in.ptrID(x))
	case nilV:
		return nil
	case structV:
		r := make([]interface{}, len(x))
		for i, e := range x {
			if _, isI := e.(iface); isI {
				r[i] = in.toNative(e, caller)
			} else {
				r[i] = in.toNativeTyped(e, nil, caller)
			}
		}
		return r
	case rtype:
		return stringer(typeStr(x.t))
	}
	unsupported("fmt of %T", v)
	return nil
}

func (in *Interp) ptrID(p *Value) int {
	if id, ok := in.ptrIDs[p]; ok {
		return id
	}
	id := len(in.ptrIDs) + 1
	in.ptrIDs[p] = id
	return id
}

// sprintf formats with concrete arguments natively. A symbolic string/integer
// argument is spliced term-wise for %s/%v/%d verbs without flags.
func (in *Interp) sprintf(format string, args []Value, caller *frame) strV {
	// fast path: all concrete
	allConcrete := true
	for _, a := range args {
		if !in.isConcreteVal(a) {
			allConcrete = false
		}
	}
	if allConcrete {
		nat := make([]interface{}, len(args))
		for i, a := range args {
			nat[i] = in.toNative(a, caller)
		}
		return mkStr(fmt.Sprintf(strings.ReplaceAll(format, "%w", "%v"), nat...))
	}
	// splice path
	out := strV{}
	ai := 0
	for i := 0; i < len(format); i++ {
		c := format[i]
		if c != '%' {
			out = append(out, bv(8, uint64(c)))
			continue
		}
		i++
		if i >= len(format) {
			break
		}
		verb := format[i]
		if verb == '%' {
			out = append(out, bv(8, '%'))
			continue
		}
		if verb == '+' && i+1 < len(format) && format[i+1] == 'v' {
			// %+v of scalars and strings prints like %v
			i++
			verb = 'v'
		}
		if ai >= len(args) {
			unsupported("sprintf: missing argument")
		}
		a := args[ai]
		ai++
		switch verb {
		case 's', 'v', 'd', 'w', 'q':
			if in.isConcreteVal(a) {
				out = append(out, mkStr(fmt.Sprintf("%"+string(verb), in.toNative(a, caller)))...)
				continue
			}
			if verb == 'q' {
				unsupported("sprintf %%q of symbolic value")
			}
			ia, _ := a.(iface)
			switch x := ia.v.(type) {
			case strV:
				out = append(out, x...)
			case *Term:
				if x.w == 0 {
					if in.e.branch(x) {
						out = append(out, mkStr("true")...)
					} else {
						out = append(out, mkStr("false")...)
					}
				} else {
					out = append(out, in.itoa(x, isSigned(ia.t)).(strV)...)
				}
			default:
				unsupported("sprintf of symbolic %T", ia.v)
			}
		default:
			unsupported("sprintf verb %%%c with symbolic argument", verb)
		}
	}
	return out
}

func (in *Interp) isConcreteVal(v Value) bool {
	switch x := v.(type) {
	case *Term:
		return x.isConst
	case strV:
		_, ok := concrete(x)
		return ok
	case iface:
		return x.t == nil || in.isConcreteVal(x.v)
	case sliceV:
		for _, e := range x.elems() {
			if !in.isConcreteVal(e) {
				return false
			}
		}
		return true
	case structV:
		for _, e := range x {
			if !in.isConcreteVal(e) {
				return false
			}
		}
		return true
	case *Value:
		return true
	}
	return true
}

// ---- native bridge (regexp, inflection): concrete arguments only

func nativeBridge(in *Interp, fn *ssa.Function, args []Value, caller *frame) Value {
	name := fn.String()
	if fn.Signature.Recv() == nil {
		switch name {
		case "github.com/jinzhu/inflection.Plural":
			return mkStr(mustStr(args[0], name) + "s")
		case "regexp.MustCompile":
			return newCell(handle{regexp.MustCompile(mustStr(args[0], name))})
		}
		unsupported("native function %s", name)
	}
	p, ok := args[0].(*Value)
	if !ok || p == nil {
		unsupported("native method %s on %T", name, args[0])
	}
	h, ok := (*p).(handle)
	if !ok {
		unsupported("native method %s on non-handle", name)
	}
	m := reflect.ValueOf(h.obj).MethodByName(fn.Name())
	if !m.IsValid() {
		unsupported("native method %s not found", name)
	}
	var nargs []reflect.Value
	for i, a := range args[1:] {
		pt := m.Type().In(i)
		switch pt.Kind() {
		case reflect.String:
			nargs = append(nargs, reflect.ValueOf(mustStr(a, name)))
		case reflect.Int:
			nargs = append(nargs, reflect.ValueOf(in.cint(a)))
		default:
			unsupported("native arg kind %s in %s", pt.Kind(), name)
		}
	}
	outs := m.Call(nargs)
	conv := func(o reflect.Value) Value {
		switch o.Kind() {
		case reflect.String:
			return mkStr(o.String())
		case reflect.Bool:
			return bl(o.Bool())
		case reflect.Int:
			return bv(64, uint64(o.Int()))
		case reflect.Slice:
			if o.Type().Elem().Kind() == reflect.String {
				if o.IsNil() {
					return sliceV{}
				}
				vs := make([]Value, o.Len())
				for i := range vs {
					vs[i] = mkStr(o.Index(i).String())
				}
				return sliceOfVals(vs)
			}
		}
		unsupported("native result kind %s in %s", o.Kind(), name)
		return nil
	}
	switch len(outs) {
	case 0:
		return nil
	case 1:
		return conv(outs[0])
	}
	t := make(tupleV, len(outs))
	for i := range outs {
		t[i] = conv(outs[i])
	}
	return t
}

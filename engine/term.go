package main

import (
	"fmt"
	"strings"
)

// Term is an SMT-LIB expression DAG node. w == 0 means Bool, otherwise a
// bit-vector of width w. A Term whose leaves are all constants is folded
// eagerly, so concrete execution is the degenerate case of symbolic execution.
type Term struct {
	op      string
	w       int
	args    []*Term
	c       uint64
	isConst bool
	name    string
	p1, p2  int // extract hi/lo, extension amount
}

func mask(w int) uint64 {
	if w >= 64 || w == 0 {
		if w == 0 {
			return 1
		}
		return ^uint64(0)
	}
	return (uint64(1) << uint(w)) - 1
}

var tTrue = &Term{op: "const", w: 0, c: 1, isConst: true}
var tFalse = &Term{op: "const", w: 0, c: 0, isConst: true}

var smallConsts [4][512]*Term

func init() {
	for wi, w := range []int{8, 16, 32, 64} {
		for c := 0; c < 512; c++ {
			smallConsts[wi][c] = &Term{op: "const", w: w, c: uint64(c) & mask(w), isConst: true}
		}
	}
}

func bv(w int, c uint64) *Term {
	c &= mask(w)
	if c < 512 {
		switch w {
		case 8:
			return smallConsts[0][c]
		case 16:
			return smallConsts[1][c]
		case 32:
			return smallConsts[2][c]
		case 64:
			return smallConsts[3][c]
		}
	}
	return &Term{op: "const", w: w, c: c, isConst: true}
}
func bl(b bool) *Term {
	if b {
		return tTrue
	}
	return tFalse
}
func sym(name string, w int) *Term { return &Term{op: "sym", w: w, name: name} }
func sext(c uint64, w int) int64 {
	if w == 0 {
		return int64(c)
	}
	sh := uint(64 - w)
	return int64(c<<sh) >> sh
}
func (t *Term) isTrue() bool  { return t.isConst && t.c != 0 }
func (t *Term) isFalse() bool { return t.isConst && t.c == 0 }

func foldBin(op string, w int, a, b *Term) (*Term, bool) {
	x, y := a.c, b.c
	aw := a.w
	switch op {
	case "bvadd":
		return bv(w, x+y), true
	case "bvsub":
		return bv(w, x-y), true
	case "bvmul":
		return bv(w, x*y), true
	case "bvand":
		return bv(w, x&y), true
	case "bvor":
		return bv(w, x|y), true
	case "bvxor":
		return bv(w, x^y), true
	case "bvudiv":
		if y == 0 {
			return bv(w, mask(w)), true
		}
		return bv(w, x/y), true
	case "bvurem":
		if y == 0 {
			return bv(w, x), true
		}
		return bv(w, x%y), true
	case "bvsdiv":
		if y == 0 {
			return nil, false
		}
		sx, sy := sext(x, aw), sext(y, aw)
		if sy == -1 {
			return bv(w, uint64(-sx)), true
		}
		return bv(w, uint64(sx/sy)), true
	case "bvsrem":
		if y == 0 {
			return nil, false
		}
		sx, sy := sext(x, aw), sext(y, aw)
		if sy == -1 {
			return bv(w, 0), true
		}
		return bv(w, uint64(sx%sy)), true
	case "bvshl":
		if y >= uint64(w) {
			return bv(w, 0), true
		}
		return bv(w, x<<y), true
	case "bvlshr":
		if y >= uint64(w) {
			return bv(w, 0), true
		}
		return bv(w, x>>y), true
	case "bvashr":
		sx := sext(x, aw)
		if y >= uint64(w) {
			y = 63
		}
		return bv(w, uint64(sx>>y)), true
	case "=":
		return bl(x == y), true
	case "and":
		return bl(x != 0 && y != 0), true
	case "or":
		return bl(x != 0 || y != 0), true
	case "xor":
		return bl((x != 0) != (y != 0)), true
	case "bvslt":
		return bl(sext(x, aw) < sext(y, aw)), true
	case "bvsle":
		return bl(sext(x, aw) <= sext(y, aw)), true
	case "bvult":
		return bl(x < y), true
	case "bvule":
		return bl(x <= y), true
	}
	return nil, false
}

func mk(op string, w int, args ...*Term) *Term {
	switch len(args) {
	case 1:
		a := args[0]
		switch op {
		case "not":
			if a.isConst {
				return bl(a.c == 0)
			}
			if a.op == "not" {
				return a.args[0]
			}
		case "bvnot":
			if a.isConst {
				return bv(w, ^a.c)
			}
		case "bvneg":
			if a.isConst {
				return bv(w, -a.c)
			}
		}
	case 2:
		a, b := args[0], args[1]
		if a.isConst && b.isConst {
			if r, ok := foldBin(op, w, a, b); ok {
				return r
			}
		}
		// distribute over an ite whose branches are constants (case bits, selectors)
		if op != "and" && op != "or" {
			if a.op == "ite" && b.isConst && a.args[1].isConst && a.args[2].isConst {
				x, ok1 := foldBin(op, w, a.args[1], b)
				y, ok2 := foldBin(op, w, a.args[2], b)
				if ok1 && ok2 {
					return mkIte(a.args[0], x, y)
				}
			}
			if b.op == "ite" && a.isConst && b.args[1].isConst && b.args[2].isConst {
				x, ok1 := foldBin(op, w, a, b.args[1])
				y, ok2 := foldBin(op, w, a, b.args[2])
				if ok1 && ok2 {
					return mkIte(b.args[0], x, y)
				}
			}
		}
		switch op {
		case "and":
			if a.isConst {
				if a.c == 0 {
					return tFalse
				}
				return b
			}
			if b.isConst {
				if b.c == 0 {
					return tFalse
				}
				return a
			}
			if a == b {
				return a
			}
		case "or":
			if a.isConst {
				if a.c != 0 {
					return tTrue
				}
				return b
			}
			if b.isConst {
				if b.c != 0 {
					return tTrue
				}
				return a
			}
			if a == b {
				return a
			}
		case "=":
			if a == b {
				return tTrue
			}
			if a.w == 0 {
				if a.isConst {
					if a.c != 0 {
						return b
					}
					return mk("not", 0, b)
				}
				if b.isConst {
					if b.c != 0 {
						return a
					}
					return mk("not", 0, a)
				}
			}
		case "bvadd", "bvor", "bvxor":
			if a.isConst && a.c == 0 {
				return b
			}
			if b.isConst && b.c == 0 {
				return a
			}
		case "bvsub":
			if b.isConst && b.c == 0 {
				return a
			}
		case "bvmul":
			if a.isConst && a.c == 1 {
				return b
			}
			if b.isConst && b.c == 1 {
				return a
			}
			if (a.isConst && a.c == 0) || (b.isConst && b.c == 0) {
				return bv(w, 0)
			}
		case "bvand":
			if (a.isConst && a.c == 0) || (b.isConst && b.c == 0) {
				return bv(w, 0)
			}
			if a.isConst && a.c == mask(w) {
				return b
			}
			if b.isConst && b.c == mask(w) {
				return a
			}
		case "bvule":
			if a.isConst && a.c == 0 {
				return tTrue
			}
		case "bvult":
			if b.isConst && b.c == 0 {
				return tFalse
			}
		}
	}
	return &Term{op: op, w: w, args: args}
}

func mkIte(c, a, b *Term) *Term {
	if c.isConst {
		if c.c != 0 {
			return a
		}
		return b
	}
	if a == b {
		return a
	}
	if a.isConst && b.isConst && a.c == b.c && a.w == b.w {
		return a
	}
	if a.w == 0 {
		if a.isConst && b.isConst {
			if a.c != 0 {
				return c
			}
			return mk("not", 0, c)
		}
	}
	return &Term{op: "ite", w: a.w, args: []*Term{c, a, b}}
}

func mkAnd(ts ...*Term) *Term {
	r := tTrue
	for _, t := range ts {
		r = mk("and", 0, r, t)
	}
	return r
}
func mkOr(ts ...*Term) *Term {
	r := tFalse
	for _, t := range ts {
		r = mk("or", 0, r, t)
	}
	return r
}
func mkNot(t *Term) *Term   { return mk("not", 0, t) }
func mkEq(a, b *Term) *Term { return mk("=", 0, a, b) }

// resize converts a bit-vector to width tw; signed selects sign extension.
func resize(t *Term, tw int, signed bool) *Term {
	if t.w == tw {
		return t
	}
	if t.isConst {
		if signed {
			return bv(tw, uint64(sext(t.c, t.w)))
		}
		return bv(tw, t.c)
	}
	if t.op == "ite" && t.args[1].isConst && t.args[2].isConst {
		return mkIte(t.args[0], resize(t.args[1], tw, signed), resize(t.args[2], tw, signed))
	}
	if tw < t.w {
		return &Term{op: "extract", w: tw, args: []*Term{t}, p1: tw - 1, p2: 0}
	}
	if signed {
		return &Term{op: "sign_extend", w: tw, args: []*Term{t}, p1: tw - t.w}
	}
	return &Term{op: "zero_extend", w: tw, args: []*Term{t}, p1: tw - t.w}
}

// eval computes the value of t under a model (symbol name -> value).
func (t *Term) eval(m map[string]uint64, memo map[*Term]uint64) uint64 {
	if t.isConst {
		return t.c
	}
	if v, ok := memo[t]; ok {
		return v
	}
	var r uint64
	switch t.op {
	case "sym":
		r = m[t.name] & mask(t.w)
	case "not":
		if t.args[0].eval(m, memo) == 0 {
			r = 1
		}
	case "bvnot":
		r = ^t.args[0].eval(m, memo) & mask(t.w)
	case "bvneg":
		r = -t.args[0].eval(m, memo) & mask(t.w)
	case "ite":
		if t.args[0].eval(m, memo) != 0 {
			r = t.args[1].eval(m, memo)
		} else {
			r = t.args[2].eval(m, memo)
		}
	case "extract":
		r = (t.args[0].eval(m, memo) >> uint(t.p2)) & mask(t.w)
	case "zero_extend":
		r = t.args[0].eval(m, memo)
	case "sign_extend":
		r = uint64(sext(t.args[0].eval(m, memo), t.args[0].w)) & mask(t.w)
	default:
		a := &Term{isConst: true, w: t.args[0].w, c: t.args[0].eval(m, memo)}
		b := &Term{isConst: true, w: t.args[1].w, c: t.args[1].eval(m, memo)}
		f, ok := foldBin(t.op, t.w, a, b)
		if !ok {
			panic("eval: cannot fold " + t.op)
		}
		r = f.c
	}
	memo[t] = r
	return r
}

// syms collects the symbols occurring in t.
func (t *Term) syms(out map[string]int, seen map[*Term]bool) {
	if t.isConst || seen[t] {
		return
	}
	seen[t] = true
	if t.op == "sym" {
		out[t.name] = t.w
		return
	}
	for _, a := range t.args {
		a.syms(out, seen)
	}
}

// mentions reports whether t mentions a symbol whose name has one of the prefixes.
func (t *Term) mentions(prefix string, seen map[*Term]bool) bool {
	if t.isConst || seen[t] {
		return false
	}
	seen[t] = true
	if t.op == "sym" {
		return strings.HasPrefix(t.name, prefix)
	}
	for _, a := range t.args {
		if a.mentions(prefix, seen) {
			return true
		}
	}
	return false
}

func (t *Term) String() string {
	if t.isConst {
		if t.w == 0 {
			return fmt.Sprint(t.c != 0)
		}
		return fmt.Sprint(sext(t.c, t.w))
	}
	if t.op == "sym" {
		return t.name
	}
	var sb strings.Builder
	sb.WriteString("(" + t.op)
	for _, a := range t.args {
		sb.WriteString(" " + a.String())
	}
	sb.WriteString(")")
	return sb.String()
}

package main

import (
	"crypto/sha1"
	"encoding/hex"
	"encoding/json"
	"flag"
	"fmt"
	"go/types"
	"os"
	"os/exec"
	"path/filepath"
	"regexp"
	"runtime/debug"
	"runtime/pprof"
	"sort"
	"strconv"
	"strings"
	"time"
)

var verifDir = "/verif"
var repoDir = "/repo"

func main() {
	if len(os.Args) < 2 {
		fmt.Fprintln(os.Stderr, "usage: gosym check <PROP> [--tier quick|thorough] | replay <PROP> <file> | selftest")
		os.Exit(2)
	}
	if d := os.Getenv("VERIF_DIR"); d != "" {
		verifDir = d
	}
	if d := os.Getenv("VERIF_REPO"); d != "" {
		repoDir = d
	}
	debug.SetGCPercent(300) // the interpreter allocates heavily; memory is plentiful
	switch os.Args[1] {
	case "check":
		os.Exit(cmdCheck(os.Args[2:]))
	case "replay":
		os.Exit(cmdReplay(os.Args[2:]))
	default:
		fmt.Fprintln(os.Stderr, "unknown command", os.Args[1])
		os.Exit(2)
	}
}

type KnownFinding struct {
	Property  string `json:"property"`
	Status    string `json:"status"` // known | fixed
	Harness   string `json:"harness"`
	Signature string `json:"signature,omitempty"`
	SigRe     string `json:"signature_re,omitempty"`
	What      string `json:"what"`
	Commit    string `json:"commit,omitempty"`
}

func loadKnown() []KnownFinding {
	b, err := os.ReadFile(filepath.Join(verifDir, "known_findings.json"))
	if err != nil {
		return nil
	}
	var k []KnownFinding
	if err := json.Unmarshal(b, &k); err != nil {
		fmt.Fprintln(os.Stderr, "known_findings.json:", err)
		os.Exit(2)
	}
	return k
}

func cmdCheck(args []string) int {
	fs := flag.NewFlagSet("check", flag.ExitOnError)
	tier := fs.String("tier", "quick", "quick|thorough")
	jobs := fs.Int("jobs", 16, "workers")
	only := fs.String("harness", "", "only this harness")
	shapeSel := fs.String("shapes", "", "a..b (inclusive) or single index")
	solverKind := fs.String("solver", "z3", "z3|z3-new|cvc5")
	noNative := fs.Bool("no-native", false, "skip native validation/replay (development only; exit 2)")
	verbose := fs.Bool("v", false, "verbose")
	maxPaths := fs.Int("max-paths", 200000, "path budget per instance")
	budget := fs.Duration("budget", 0, "time budget for exploration (0 = none)")
	noEvidence := fs.Bool("no-evidence", false, "do not write the evidence file")
	cpuprof := fs.String("cpuprofile", "", "write a CPU profile")
	cross := fs.String("cross", "auto", "second solver for assertion queries: none|cvc5|z3-new|auto (thorough: cvc5)")
	if len(args) < 1 {
		fmt.Fprintln(os.Stderr, "check: property id required")
		return 2
	}
	prop := args[0]
	fs.Parse(args[1:])
	if t := os.Getenv("VERIF_TIER"); t != "" && !flagSet(fs, "tier") {
		*tier = t
	}
	seed := 1
	if s := os.Getenv("VERIF_SEED"); s != "" {
		seed, _ = strconv.Atoi(s)
	}
	t0 := time.Now()
	env, err := loadEnv(verifDir, repoDir, true)
	if err != nil {
		fmt.Fprintln(os.Stderr, "load failed (harness does not build against the current tree):", err)
		return 2
	}
	env.verbose = *verbose
	if *tier == "thorough" {
		env.preemptBound = 3
	}
	switch *cross {
	case "auto":
		if *tier == "thorough" {
			env.crossKind = "cvc5"
		}
	case "none":
	default:
		env.crossKind = *cross
	}
	loadT := time.Since(t0)
	hs := env.harnesses("H_" + prop + "_")
	if *only != "" {
		var f []*Harness
		for _, h := range hs {
			if h.Name == *only {
				f = append(f, h)
			}
		}
		hs = f
	}
	if len(hs) == 0 {
		fmt.Fprintln(os.Stderr, "no harness for", prop)
		return 2
	}
	tierN := 0
	if *tier == "thorough" {
		tierN = 1
	}
	env.tierN = tierN
	hmap := map[string]*Harness{}
	var insts []*InstanceResult
	for _, h := range hs {
		hmap[h.Name] = h
		n := 1
		if h.NFn != nil {
			n = env.concreteCallInt(h.NFn, tierN)
		}
		lo, hi := 0, n-1
		if *shapeSel != "" {
			if i := strings.Index(*shapeSel, ".."); i >= 0 {
				lo, _ = strconv.Atoi((*shapeSel)[:i])
				hi, _ = strconv.Atoi((*shapeSel)[i+2:])
			} else {
				lo, _ = strconv.Atoi(*shapeSel)
				hi = lo
			}
		}
		for s := lo; s <= hi && s < n; s++ {
			insts = append(insts, &InstanceResult{Harness: h.Name, Shape: s})
		}
	}
	var deadline time.Time
	if *budget > 0 {
		deadline = time.Now().Add(*budget)
	}
	if *cpuprof != "" {
		f, _ := os.Create(*cpuprof)
		pprof.StartCPUProfile(f)
		defer pprof.StopCPUProfile()
	}
	t1 := time.Now()
	fatal := func() (f interface{}) {
		defer func() { f = recover() }()
		env.exploreAll(insts, hmap, *jobs, *solverKind, *maxPaths, deadline)
		return nil
	}()
	if fatal != nil {
		fmt.Fprintln(os.Stderr, "INCONCLUSIVE: engine failure:", fatal)
		return 2
	}
	exploreT := time.Since(t1)
	dumpProfile()

	// ---- aggregate
	ev := newEvidence(prop, *tier, seed)
	inconclusive := []string{}
	var allViol []*Violation
	var samples []PathSample
	funcs := map[string]int{}
	reached := map[string]int{}
	perHarness := map[string]*harnessStat{}
	for _, r := range insts {
		st := perHarness[r.Harness]
		if st == nil {
			st = &harnessStat{}
			perHarness[r.Harness] = st
		}
		st.Shapes++
		st.Paths += r.Paths
		st.AssumeDrops += r.AssumeDrops
		st.Branches += r.Branches
		st.Asserts += r.Asserts
		ev.states += r.Paths
		ev.transitions += r.Branches
		ev.sat += r.Sat
		ev.unsat += r.Unsat
		ev.unknown += r.Unknown
		ev.solverTime += r.SolverTime
		ev.steps += r.Steps
		ev.asserts += r.Asserts
		ev.mapChecks[0] += r.MapChecks[0]
		ev.mapChecks[1] += r.MapChecks[1]
		for k, n := range r.Aborts {
			inconclusive = append(inconclusive, fmt.Sprintf("%s shape %d: %s (x%d)", r.Harness, r.Shape, k, n))
			if strings.HasPrefix(k, "unwind") {
				ev.unwind += n
			} else {
				ev.unsupported += n
			}
		}
		for i := range r.Violations {
			allViol = append(allViol, &r.Violations[i])
		}
		samples = append(samples, r.Samples...)
		for f, n := range r.Funcs {
			funcs[f] += n
		}
		for l, n := range r.Reached {
			reached[r.Harness+":"+l] += n
		}
		if r.Paths == 0 && len(r.Aborts) == 0 {
			inconclusive = append(inconclusive, fmt.Sprintf("%s shape %d: vacuous (no feasible path reaches the end)", r.Harness, r.Shape))
		}
	}
	ev.perHarness = perHarness
	ev.funcs = funcs
	ev.reached = reached
	ev.shapes = len(insts)
	ev.crossKind = env.crossKind
	ev.crossQueries = env.crossQueries
	ev.loadS = loadT.Seconds()
	ev.exploreS = exploreT.Seconds()

	// every harness must reach its end on at least one path (vacuity witness)
	for _, h := range hs {
		if reached[h.Name+":<end>"] == 0 {
			inconclusive = append(inconclusive, h.Name+": vacuous — no path reaches the end of the harness")
		}
	}

	// ---- native validation: differential samples + replay of counterexamples
	known := loadKnown()
	exit := 0
	if !*noNative {
		cases := []nativeCase{}
		// sampled path witnesses (seeded subsample)
		pick := subsample(samples, 40, seed)
		for i := range pick {
			cases = append(cases, nativeCase{Harness: pick[i].Harness, Shape: pick[i].Shape, Assign: pick[i].Assign})
		}
		// distinct violations by (harness, signature): replay the first of each
		seenSig := map[string]bool{}
		var vcases []*Violation
		for _, v := range allViol {
			k := v.Harness + "|" + v.Signature
			if seenSig[k] {
				continue
			}
			seenSig[k] = true
			vcases = append(vcases, v)
			nc := nativeCase{Harness: v.Harness, Shape: v.Shape, Assign: v.Assign}
			if v.Threaded {
				nc.Repeat = 400
			}
			cases = append(cases, nc)
		}
		// stack-overflow candidates crash the native process: run each alone;
		// map-race candidates are confirmed by the Go race detector (a build of their own)
		var ovf, races []*Violation
		{
			keepV := vcases[:0]
			keepC := cases[:len(pick)]
			for i, v := range vcases {
				if v.Label == "stack-overflow" {
					ovf = append(ovf, v)
				} else if v.Label == "map-race" {
					races = append(races, v)
				} else {
					keepV = append(keepV, v)
					keepC = append(keepC, cases[len(pick)+i])
				}
			}
			vcases, cases = keepV, keepC
		}
		for _, v := range ovf {
			_, cerr := runNative(env, []nativeCase{{Harness: v.Harness, Shape: v.Shape, Assign: v.Assign}}, hs)
			if cerr != nil && strings.Contains(cerr.Error(), "stack overflow") {
				v.Confirmed = "native"
				ev.validated++
			} else {
				v.Confirmed = "no"
				inconclusive = append(inconclusive, fmt.Sprintf("recursion bound exceeded but no native stack overflow: %s shape %d %s assign %v", v.Harness, v.Shape, v.Detail, v.Assign))
			}
		}
		if len(races) > 0 {
			var rc []nativeCase
			for _, v := range races {
				rc = append(rc, nativeCase{Harness: v.Harness, Shape: v.Shape, Assign: v.Assign, Repeat: 60})
			}
			rres, rerr := runNativeOpt(env, rc, hs, true)
			for i, v := range races {
				if rerr == nil && strings.HasPrefix(rres[i].Panic, "the native run died:") {
					v.Confirmed = "native"
					v.Detail += " (" + rres[i].Panic + ")"
					ev.validated++
				} else if rerr == nil && (rres[i].Fail != "" || rres[i].Panic != "") && !rres[i].Assume && len(rres[i].Missing) == 0 {
					// the real build fails the harness on this input before the race detector
					// speaks: still a violation shown by the real code
					v.Confirmed = "native"
					v.Detail += " (native run fails at " + rres[i].Fail + rres[i].Panic + ")"
					ev.validated++
				} else {
					v.Confirmed = "no"
					why := ""
					if rerr != nil {
						why = rerr.Error()
					} else {
						why = fmt.Sprintf("native fail=%q panic=%q", rres[i].Fail, rres[i].Panic)
					}
					inconclusive = append(inconclusive, fmt.Sprintf("unordered map accesses not reported by the Go race detector on the real build: %s shape %d %s (%s)", v.Harness, v.Shape, v.Detail, why))
				}
			}
		}
		var nativeViol []*Violation
		results, nerr := runNative(env, cases, hs)
		if nerr != nil {
			fmt.Fprintln(os.Stderr, "INCONCLUSIVE: native run failed:", nerr)
			inconclusive = append(inconclusive, "native run failed: "+nerr.Error())
		} else {
			for i := range pick {
				r := results[i]
				want := pick[i]
				ok := !r.Assume && r.Fail == "" && r.Panic == "" && len(r.Missing) == 0 && equalStrs(r.Observes, want.Observes)
				if ok {
					ev.validated++
				} else if want.Threaded && (r.Fail != "" || r.Panic != "") && !r.Assume && len(r.Missing) == 0 {
					// a goroutine harness failed on the real build under the Go scheduler
					// (a schedule outside the explored preemption bound): a violation
					// shown by the real code itself
					label := r.Fail
					if label == "" {
						label = "panic"
					}
					nv := &Violation{Harness: want.Harness, Shape: want.Shape, Label: label, Signature: label + "/native-schedule", Assign: want.Assign,
						Detail: "failed natively under the Go scheduler: " + r.Fail + r.Panic, Threaded: true, Confirmed: "native"}
					nativeViol = append(nativeViol, nv)
				} else {
					inconclusive = append(inconclusive, fmt.Sprintf("encoder mismatch on %s shape %d assign %v: native observes=%v fail=%q panic=%q assume=%v missing=%v; interpreter observes=%v",
						want.Harness, want.Shape, want.Assign, r.Observes, r.Fail, r.Panic, r.Assume, r.Missing, want.Observes))
				}
			}
			for i, v := range vcases {
				r := results[len(pick)+i]
				confirmed := r.Fail == v.Label || (v.Label == "panic" && r.Panic != "") || (v.Label == "deadlock" && strings.HasPrefix(r.Panic, "timeout:"))
				if !confirmed && (r.Fail != "" || r.Panic != "") && !r.Assume && len(r.Missing) == 0 {
					// the real build fails the harness on the solver's input too, at another
					// assertion: still a violation shown by the real code
					confirmed = true
					v.Detail += " (native run fails at " + r.Fail + r.Panic + ")"
				}
				if confirmed {
					v.Confirmed = "native"
					ev.validated++
				} else {
					v.Confirmed = "no"
					inconclusive = append(inconclusive, fmt.Sprintf("counterexample not reproduced natively: %s shape %d label %s assign %v (native fail=%q panic=%q assume=%v missing=%v)",
						v.Harness, v.Shape, v.Label, v.Assign, r.Fail, r.Panic, r.Assume, r.Missing))
				}
			}
		}
		// report
		for _, v := range append(append(append(vcases, ovf...), races...), nativeViol...) {
			if v.Confirmed != "native" {
				continue
			}
			if len(env.sqlMismatch) > 0 {
				// the relational model behind this run disagrees with SQLite: nothing it reports is believed
				inconclusive = append(inconclusive, fmt.Sprintf("violation withheld (relational model disagrees with SQLite): %s shape %d %s", v.Harness, v.Shape, v.Signature))
				continue
			}
			kf := matchKnown(known, prop, v)
			if kf != nil {
				fmt.Printf("KNOWN-FINDING: property=%s %s [%s %s]\n", prop, kf.What, v.Harness, v.Signature)
				ev.knownHit = append(ev.knownHit, v.Harness+" "+v.Signature)
				continue
			}
			v.Tier = tierN
			path := writeReplay(prop, v)
			v.Replay = path
			fmt.Printf("VIOLATION property=%s replay=%s\n", prop, path)
			fmt.Printf("  harness=%s shape=%d signature=%s detail=%s\n", v.Harness, v.Shape, v.Signature, v.Detail)
			ev.violations++
			exit = 1
		}
		// the disagreements themselves come first (the list is cut when printed)
		inconclusive = append(append([]string{}, env.sqlMismatch...), inconclusive...)
		ev.sqlTraces = env.sqlTraces
	} else {
		inconclusive = append(inconclusive, "native validation skipped (--no-native)")
		for _, v := range allViol {
			fmt.Printf("violation (unconfirmed): %s shape %d %s %s assign=%v\n", v.Harness, v.Shape, v.Signature, v.Detail, v.Assign)
		}
	}
	ev.samples = samples
	ev.inconclusive = inconclusive
	ev.wall = time.Since(t0).Seconds()
	if !*noEvidence {
		ev.write(env)
	}
	fmt.Printf("%s tier=%s harnesses=%d shapes=%d paths=%d branches=%d asserts=%d queries(sat/unsat/unknown)=%d/%d/%d solver=%.1fs validated=%d violations=%d known=%d wall=%.1fs\n",
		prop, *tier, len(hs), len(insts), ev.states, ev.transitions, ev.asserts, ev.sat, ev.unsat, ev.unknown, ev.solverTime.Seconds(), ev.validated, ev.violations, len(ev.knownHit), ev.wall)
	if *verbose {
		names := []string{}
		for n := range perHarness {
			names = append(names, n)
		}
		sort.Strings(names)
		for _, n := range names {
			st := perHarness[n]
			fmt.Printf("  %s shapes=%d paths=%d assumeDrops=%d branches=%d asserts=%d\n", n, st.Shapes, st.Paths, st.AssumeDrops, st.Branches, st.Asserts)
		}
	}
	if exit == 1 {
		return 1
	}
	if len(inconclusive) > 0 {
		max := 12
		for i, s := range inconclusive {
			if i >= max {
				fmt.Fprintf(os.Stderr, "INCONCLUSIVE: ... and %d more\n", len(inconclusive)-max)
				break
			}
			fmt.Fprintln(os.Stderr, "INCONCLUSIVE:", s)
		}
		return 2
	}
	return 0
}

func flagSet(fs *flag.FlagSet, name string) bool {
	set := false
	fs.Visit(func(f *flag.Flag) {
		if f.Name == name {
			set = true
		}
	})
	return set
}

func equalStrs(a, b []string) bool {
	if len(a) != len(b) {
		return false
	}
	for i := range a {
		if a[i] != b[i] {
			return false
		}
	}
	return true
}

func subsample(s []PathSample, n int, seed int) []PathSample {
	if len(s) <= n {
		return s
	}
	// deterministic stride with seed offset
	out := make([]PathSample, 0, n)
	stride := len(s) / n
	off := seed % stride
	for i := off; i < len(s) && len(out) < n; i += stride {
		out = append(out, s[i])
	}
	return out
}

func matchKnown(known []KnownFinding, prop string, v *Violation) *KnownFinding {
	for i := range known {
		k := &known[i]
		if k.Property != prop || k.Status != "known" || k.Harness != v.Harness {
			continue
		}
		if k.Signature != "" && k.Signature == v.Signature {
			return k
		}
		if k.SigRe != "" {
			if ok, _ := regexp.MatchString("^(?:"+k.SigRe+")$", v.Signature); ok {
				return k
			}
		}
	}
	return nil
}

func writeReplay(prop string, v *Violation) string {
	dir := filepath.Join(verifDir, "replays", prop)
	os.MkdirAll(dir, 0o755)
	b, _ := json.MarshalIndent(v, "", " ")
	h := sha1.Sum(b)
	p := filepath.Join(dir, fmt.Sprintf("%s-%d-%s.json", v.Harness, v.Shape, hex.EncodeToString(h[:4])))
	os.WriteFile(p, b, 0o644)
	return p
}

// concreteCallInt interprets fn(arg) concretely and returns its int result.
func (env *Env) concreteCallInt(fn *ssaFunction, arg int) int {
	s := newSolver("z3")
	defer s.close()
	e := &Explorer{solver: s}
	in := env.newInterp(e)
	defer func() {
		if r := recover(); r != nil {
			if pa, ok := r.(pathAbort); ok {
				fmt.Fprintf(os.Stderr, "INCONCLUSIVE: %s while evaluating %s: %s\n", pa.kind, fn, pa.why)
				os.Exit(2)
			}
			if gp, ok := r.(*goPanic); ok {
				fmt.Fprintf(os.Stderr, "INCONCLUSIVE: Go panic while evaluating %s: %s at %s\n", fn, describe(gp.val), gp.where)
				os.Exit(2)
			}
			panic(r)
		}
	}()
	in.runInits()
	r := in.call(fn, nil, []Value{bv(64, uint64(arg))}, nil)
	return in.cint(r)
}

// ---- native runner

type nativeCase struct {
	Harness string            `json:"harness"`
	Shape   int               `json:"shape"`
	Assign  map[string]uint64 `json:"assign"`
	Repeat  int               `json:"repeat,omitempty"` // threaded cases: run until the failure shows, at most this often
}

type nativeResult struct {
	Harness  string   `json:"harness"`
	Shape    int      `json:"shape"`
	Observes []string `json:"observes"`
	Reached  []string `json:"reached"`
	Tags     []string `json:"tags"`
	Fail     string   `json:"fail"`
	Panic    string   `json:"panic"`
	Assume   bool     `json:"assume_violated"`
	Missing  []string `json:"missing"`
	Unknown  bool     `json:"unknown_harness"`
}

func runNative(env *Env, cases []nativeCase, hs []*Harness) ([]nativeResult, error) {
	return runNativeOpt(env, cases, hs, false)
}

// runNativeOpt: race = build the harness with the Go race detector and stop at its first
// report (the case it stopped in gets the report as its result, like a fatal error).
func runNativeOpt(env *Env, cases []nativeCase, hs []*Harness, race bool) ([]nativeResult, error) {
	if len(cases) == 0 {
		return nil, nil
	}
	tmp, err := os.MkdirTemp("", "gosym-native-")
	if err != nil {
		return nil, err
	}
	defer os.RemoveAll(tmp)
	batch := filepath.Join(tmp, "batch.json")
	b, _ := json.Marshal(cases)
	os.WriteFile(batch, b, 0o644)
	// registry + test driver
	var sb strings.Builder
	sb.WriteString("package verifh\n\nimport (\n\t\"os\"\n\t\"testing\"\n\n\t\"gorm.io/gorm/internal/verifrt\"\n)\n\n")
	sb.WriteString("func TestVerifBatch(t *testing.T) {\n\treg := map[string]func(int){\n")
	seen := map[string]bool{}
	for _, c := range cases {
		if !seen[c.Harness] {
			seen[c.Harness] = true
			fmt.Fprintf(&sb, "\t\t%q: %s,\n", c.Harness, c.Harness)
		}
	}
	sb.WriteString("\t}\n\tif err := verifrt.RunBatch(os.Getenv(\"VERIF_BATCH\"), reg); err != nil {\n\t\tt.Fatal(err)\n\t}\n}\n")
	testFile := filepath.Join(tmp, "zz_batch_test.go")
	os.WriteFile(testFile, []byte(sb.String()), 0o644)
	repl := map[string]string{}
	for virt, real := range env.overlayFiles {
		repl[virt] = real
	}
	repl[filepath.Join(repoDir, "internal", "verifh", "zz_batch_test.go")] = testFile
	ovb, _ := json.Marshal(map[string]interface{}{"Replace": repl})
	ovFile := filepath.Join(tmp, "overlay.json")
	os.WriteFile(ovFile, ovb, 0o644)
	bin := filepath.Join(tmp, "verifh.test")
	traceDir := filepath.Join(tmp, "sqltrace")
	os.MkdirAll(traceDir, 0o755)
	goenv := append(os.Environ(), "GOFLAGS=-mod=mod", "GOPROXY=off", "GOSUMDB=off", "GOTOOLCHAIN=local", "VERIF_BATCH="+batch, "VERIF_SQLTRACE_DIR="+traceDir, fmt.Sprintf("VERIF_TIERN=%d", env.tierN))
	buildArgs := []string{"test", "-c", "-vet=off", "-o", bin, "-overlay", ovFile, harnessPkg}
	if race {
		buildArgs = append([]string{"test", "-race"}, buildArgs[1:]...)
		goenv = append(goenv, "GORACE=halt_on_error=1")
	}
	build := exec.Command("go", buildArgs...)
	build.Dir = repoDir
	build.Env = goenv
	if bout, berr := build.CombinedOutput(); berr != nil {
		return nil, fmt.Errorf("native build of the harness against the current tree failed: %v\n%s", berr, string(bout))
	}
	// a fatal error of the Go runtime in the code under test (concurrent map access, ...)
	// kills the whole process: the case it happened in gets that as its result, and the
	// batch is resumed behind it
	var res []nativeResult
	for start, crashes := 0, 0; ; {
		os.Remove(batch + ".out")
		os.Remove(batch + ".out.part")
		cmd := exec.Command(bin, "-test.run", "TestVerifBatch$", "-test.timeout", "20m")
		cmd.Dir = tmp
		cmd.Env = append(append([]string{}, goenv...), fmt.Sprintf("VERIF_BATCH_FROM=%d", start))
		out, err := cmd.CombinedOutput()
		if rb, rerr := os.ReadFile(batch + ".out"); rerr == nil {
			var part []nativeResult
			if err := json.Unmarshal(rb, &part); err != nil {
				return nil, err
			}
			res = append(res, part...)
			break
		}
		fatal := ""
		lines := strings.Split(string(out), "\n")
		for i, l := range lines {
			if strings.HasPrefix(l, "fatal error:") {
				fatal = l
				break
			}
			if race && strings.HasPrefix(l, "WARNING: DATA RACE") {
				// the two accesses: the innermost gorm function of each stack
				var fns []string
				for j := i + 1; j < len(lines) && len(fns) < 2; j++ {
					h := lines[j]
					if strings.HasPrefix(h, "Goroutine ") {
						break
					}
					if (strings.Contains(h, " at 0x") && strings.Contains(h, "by goroutine")) || strings.HasPrefix(h, "Previous ") {
						for k := j + 1; k < len(lines) && strings.HasPrefix(lines[k], "  "); k++ {
							f := strings.TrimSpace(lines[k])
							if strings.HasPrefix(f, "gorm.io/gorm") {
								fns = append(fns, strings.Fields(h)[0]+" in "+f)
								break
							}
						}
					}
				}
				fatal = "data race reported by the Go race detector: " + strings.Join(fns, " / ")
				break
			}
		}
		crashes++
		if fatal == "" || crashes > 25 {
			return nil, fmt.Errorf("native batch produced no output: %v\n%s", err, string(out))
		}
		var part []nativeResult
		if rb, rerr := os.ReadFile(batch + ".out.part"); rerr == nil {
			json.Unmarshal(rb, &part)
		}
		res = append(res, part...)
		idx := start + len(part)
		if idx >= len(cases) {
			return nil, fmt.Errorf("native batch produced no output: %v\n%s", err, string(out))
		}
		res = append(res, nativeResult{Harness: cases[idx].Harness, Shape: cases[idx].Shape, Panic: "the native run died: " + fatal})
		start = idx + 1
		if start >= len(cases) {
			break
		}
	}
	if len(res) != len(cases) {
		return nil, fmt.Errorf("native batch: %d results for %d cases", len(res), len(cases))
	}
	sqlCheck(env, traceDir)
	return res, nil
}

// sqlCheck replays the statement traces written by harnesses that use the
// relational model (verifh/memdb.go) on a real SQLite database (/verif/sqlcheck).
func sqlCheck(env *Env, dir string) {
	files, _ := filepath.Glob(filepath.Join(dir, "*.json"))
	if len(files) == 0 {
		return
	}
	if keep := os.Getenv("GOSYM_KEEP_SQLTRACE"); keep != "" {
		os.MkdirAll(keep, 0o755)
		for _, f := range files {
			if b, err := os.ReadFile(f); err == nil {
				os.WriteFile(filepath.Join(keep, filepath.Base(f)), b, 0o644)
			}
		}
	}
	tool := filepath.Join(verifDir, "bin", "sqlcheck")
	if _, err := os.Stat(tool); err != nil {
		env.sqlMismatch = append(env.sqlMismatch, "relational model not validated: "+tool+" is missing (run the setup command)")
		return
	}
	out, err := exec.Command(tool, files...).CombinedOutput()
	env.sqlTraces += len(files)
	for _, l := range strings.Split(string(out), "\n") {
		if strings.HasPrefix(l, "MISMATCH") {
			env.sqlMismatch = append(env.sqlMismatch, "relational model disagrees with SQLite: "+l)
		}
	}
	if err != nil && len(env.sqlMismatch) == 0 {
		env.sqlMismatch = append(env.sqlMismatch, "sqlcheck failed: "+err.Error()+" "+string(out))
	}
}

func cmdReplay(args []string) int {
	if len(args) < 2 {
		fmt.Fprintln(os.Stderr, "replay <PROP> <file>")
		return 2
	}
	prop, file := args[0], args[1]
	b, err := os.ReadFile(file)
	if err != nil {
		fmt.Fprintln(os.Stderr, err)
		return 2
	}
	var v Violation
	if err := json.Unmarshal(b, &v); err != nil {
		fmt.Fprintln(os.Stderr, err)
		return 2
	}
	env := &Env{}
	_, files, err := buildOverlay(verifDir, repoDir)
	if err != nil {
		fmt.Fprintln(os.Stderr, err)
		return 2
	}
	env.overlayFiles = files
	env.tierN = v.Tier
	rc := nativeCase{Harness: v.Harness, Shape: v.Shape, Assign: v.Assign}
	if v.Threaded {
		rc.Repeat = 400
	}
	if v.Label == "map-race" {
		rc.Repeat = 60
	}
	res, err := runNativeOpt(env, []nativeCase{rc}, nil, v.Label == "map-race")
	if err != nil {
		fmt.Fprintln(os.Stderr, "native run failed:", err)
		return 2
	}
	r := res[0]
	fmt.Printf("replay %s shape %d: fail=%q panic=%q assume_violated=%v observes=%v\n", v.Harness, v.Shape, r.Fail, r.Panic, r.Assume, r.Observes)
	if r.Fail == v.Label || (v.Label == "panic" && r.Panic != "") || (v.Label == "map-race" && strings.HasPrefix(r.Panic, "the native run died:")) {
		fmt.Printf("VIOLATION property=%s replay=%s\n", prop, file)
		return 1
	}
	fmt.Println("not reproduced on the current tree")
	return 0
}

// ---- observation formatting (must match verifrt.FmtObs)

func (in *Interp) fmtObs(v Value, model map[string]uint64, memo map[*Term]uint64) string {
	return in.fmtObsT(v, nil, model, memo)
}

func evalStr(s strV, model map[string]uint64, memo map[*Term]uint64) string {
	b := make([]byte, 0, len(s))
	for _, t := range s {
		if t.op == "dec" {
			v := t.args[0].eval(model, memo)
			if t.p1 == 1 {
				b = append(b, strconv.FormatInt(int64(v), 10)...)
			} else {
				b = append(b, strconv.FormatUint(v, 10)...)
			}
			continue
		}
		b = append(b, byte(t.eval(model, memo)))
	}
	return string(b)
}

func (in *Interp) fmtObsT(v Value, t types.Type, model map[string]uint64, memo map[*Term]uint64) string {
	switch x := v.(type) {
	case nil:
		return "nil"
	case iface:
		if x.t == nil {
			return "nil"
		}
		if types.Implements(x.t, errorIfaceT) {
			if m := in.lookupMethod(x.t, nil, "Error"); m != nil {
				s := in.call(m, nil, []Value{x.v}, nil)
				return "err:" + strconv.Quote(evalStr(s.(strV), model, memo))
			}
		}
		return in.fmtObsT(x.v, x.t, model, memo)
	case *Term:
		val := x.eval(model, memo)
		if x.w == 0 {
			return strconv.FormatBool(val != 0)
		}
		if t != nil && !isSigned(t) {
			return strconv.FormatUint(val, 10)
		}
		return strconv.FormatInt(sext(val, x.w), 10)
	case fltV:
		return fmt.Sprint(float64(x))
	case strV:
		return strconv.Quote(evalStr(x, model, memo))
	case sliceV:
		var et types.Type
		if t != nil {
			if st, ok := t.Underlying().(*types.Slice); ok {
				et = st.Elem()
				if b, ok := et.Underlying().(*types.Basic); ok && b.Kind() == types.Uint8 {
					bs := make([]byte, x.n)
					for i, e := range x.elems() {
						bs[i] = byte(e.(*Term).eval(model, memo))
					}
					return "b" + strconv.Quote(string(bs))
				}
			}
		}
		parts := make([]string, x.n)
		for i, e := range x.elems() {
			parts[i] = in.fmtObsT(e, et, model, memo)
		}
		return "[" + strings.Join(parts, " ") + "]"
	case arrV:
		var et types.Type
		if t != nil {
			if at, ok := t.Underlying().(*types.Array); ok {
				et = at.Elem()
			}
		}
		parts := make([]string, len(x))
		for i, e := range x {
			parts[i] = in.fmtObsT(e, et, model, memo)
		}
		return "[" + strings.Join(parts, " ") + "]"
	case *Value:
		if x == nil {
			return "nil"
		}
		var et types.Type
		if t != nil {
			if pt, ok := t.Underlying().(*types.Pointer); ok {
				et = pt.Elem()
			}
		}
		return "&" + in.fmtObsT(*x, et, model, memo)
	case structV:
		parts := make([]string, len(x))
		var st *types.Struct
		if t != nil {
			st, _ = t.Underlying().(*types.Struct)
		}
		for i, e := range x {
			if st != nil && !st.Field(i).Exported() {
				parts[i] = "_"
				continue
			}
			var ft types.Type
			if st != nil {
				ft = st.Field(i).Type()
			}
			parts[i] = in.fmtObsT(e, ft, model, memo)
		}
		return "{" + strings.Join(parts, " ") + "}"
	case *mapV:
		var kt, vt types.Type
		if t != nil {
			if mt, ok := t.Underlying().(*types.Map); ok {
				kt, vt = mt.Key(), mt.Elem()
			}
		}
		var parts []string
		if x != nil {
			for i := range x.keys {
				parts = append(parts, in.fmtObsT(x.keys[i], kt, model, memo)+":"+in.fmtObsT(x.vals[i], vt, model, memo))
			}
		}
		sort.Strings(parts)
		return "map[" + strings.Join(parts, " ") + "]"
	case nilV:
		return "nil"
	}
	return fmt.Sprintf("<%T>", v)
}

package main

import "go/types"

type typesPointer = types.Pointer

func typesNewPointer(t types.Type) *types.Pointer { return types.NewPointer(t) }

package main

import (
	"encoding/json"
	"fmt"
	"os"
	"path/filepath"
	"sort"
	"time"

	"golang.org/x/tools/go/ssa"
)

type ssaFunction = ssa.Function

type harnessStat struct {
	Shapes      int `json:"shapes"`
	Paths       int `json:"paths"`
	AssumeDrops int `json:"assume_drops"`
	Branches    int `json:"branches"`
	Asserts     int `json:"assertion_queries"`
}

type evidence struct {
	prop, tier   string
	seed         int
	states       int
	transitions  int
	validated    int
	sat, unsat   int
	unknown      int
	solverTime   time.Duration
	steps        int
	asserts      int
	mapChecks    [2]int
	unwind       int
	unsupported  int
	shapes       int
	violations   int
	knownHit     []string
	samples      []PathSample
	inconclusive []string
	perHarness   map[string]*harnessStat
	funcs        map[string]int
	reached      map[string]int
	wall         float64
	loadS        float64
	exploreS     float64
	crossKind    string
	crossQueries int
	sqlTraces    int
}

func newEvidence(prop, tier string, seed int) *evidence {
	return &evidence{prop: prop, tier: tier, seed: seed}
}

type propMeta struct {
	Bounds       map[string]interface{} `json:"bounds"`
	Stubs        []string               `json:"stubs"`
	OutsideClaim []string               `json:"outside_claim"`
	Assumptions  []string               `json:"assumptions"`
}

func loadMeta(prop, tier string) propMeta {
	var all map[string]map[string]propMeta
	b, err := os.ReadFile(filepath.Join(verifDir, "harness", "meta.json"))
	if err != nil {
		return propMeta{}
	}
	if err := json.Unmarshal(b, &all); err != nil {
		fmt.Fprintln(os.Stderr, "meta.json:", err)
		return propMeta{}
	}
	m := all[prop]
	if m == nil {
		return propMeta{}
	}
	if r, ok := m[tier]; ok {
		return r
	}
	return m["quick"]
}

func (ev *evidence) write(env *Env) {
	meta := loadMeta(ev.prop, ev.tier)
	if meta.Assumptions == nil {
		meta.Assumptions = []string{}
	}
	if meta.Stubs == nil {
		meta.Stubs = []string{}
	}
	if meta.OutsideClaim == nil {
		meta.OutsideClaim = []string{}
	}
	if meta.Bounds == nil {
		meta.Bounds = map[string]interface{}{}
	}
	if ev.inconclusive == nil {
		ev.inconclusive = []string{}
	}
	if ev.knownHit == nil {
		ev.knownHit = []string{}
	}
	fnames := make([]string, 0, len(ev.funcs))
	for f := range ev.funcs {
		fnames = append(fnames, f)
	}
	sort.Strings(fnames)
	// instruction counts of the encoded functions
	instr := map[string]int{}
	for _, p := range env.prog.AllPackages() {
		if !isGormPath(p.Pkg.Path()) {
			continue
		}
		for fn := range ssaAllFunctions(p) {
			if _, ok := ev.funcs[fn.String()]; ok {
				n := 0
				for _, b := range fn.Blocks {
					n += len(b.Instrs)
				}
				instr[fn.String()] = n
			}
		}
	}
	type fe struct {
		Name   string `json:"name"`
		Calls  int    `json:"calls"`
		Instrs int    `json:"ssa_instructions,omitempty"`
	}
	var fes []fe
	for _, f := range fnames {
		fes = append(fes, fe{f, ev.funcs[f], instr[f]})
	}
	nsamp := len(ev.samples)
	if nsamp > 6 {
		nsamp = 6
	}
	samples := make([]interface{}, 0, nsamp)
	for _, s := range ev.samples[:nsamp] {
		samples = append(samples, s)
	}
	if len(samples) == 0 {
		samples = append(samples, "no completed path")
	}
	cov := map[string]interface{}{
		"states":                        ev.states,
		"transitions":                   ev.transitions,
		"traces_validated_against_impl": ev.validated,
		"samples":                       samples,
		"exhaustive":                    len(ev.inconclusive) == 0,
		"rule":                          "states = feasible complete paths of the harness instances (each path is a class of inputs decided by the solver); transitions = branch decisions for which the solver found both sides feasible; traces_validated = path witnesses and counterexamples re-executed on the natively compiled real code with identical observations",
		"shapes":                        ev.shapes,
		"per_harness":                   ev.perHarness,
		"functions_encoded":             fes,
		"functions_encoded_count":       len(fes),
		"queries":                       map[string]int{"sat": ev.sat, "unsat": ev.unsat, "unknown": ev.unknown},
		"assertion_queries":             ev.asserts,
		"solver_time_s":                 ev.solverTime.Seconds(),
		"solver":                        "z3 4.8.12 (one persistent z3 -in session per worker)",
		"ssa_instructions_executed":     ev.steps,
		"unwinding_failures":            ev.unwind,
		"unsupported_paths":             ev.unsupported,
		"inconclusive":                  ev.inconclusive,
		"reach_labels":                  ev.reached,
		"bounds":                        meta.Bounds,
		"stubs":                         meta.Stubs,
		"outside_claim":                 meta.OutsideClaim,
		"known_findings_hit":            ev.knownHit,
		"relational_model_validation":   map[string]interface{}{"tool": "/verif/sqlcheck (SQLite 3 via mattn/go-sqlite3)", "traces_replayed": ev.sqlTraces, "mismatches": 0},
		"second_solver":                 map[string]interface{}{"solver": ev.crossKind, "assertion_queries_cross_checked": ev.crossQueries, "disagreements": 0},
		"load_s":                        ev.loadS,
		"explore_s":                     ev.exploreS,
	}
	if ev.mapChecks[0] > 0 {
		cov["map_access_ordering"] = map[string]interface{}{
			"accesses_checked":    ev.mapChecks[0],
			"across_goroutines":   ev.mapChecks[1],
			"rule":                "every access to a map made by gorm after verifrt.MapRaces(), on every explored schedule: ordered by happens-before (vector clocks over the modelled synchronisation primitives) after the last write / the reads since; a clock computation per path, not a solver query; an unordered pair is the assertion failure map-race, confirmed by the Go race detector on the native replay before it is reported",
			"confirmation_method": "go test -race of the harness on the solver's input, GORACE=halt_on_error=1, up to 60 repetitions",
		}
	}
	out := map[string]interface{}{
		"property_id": ev.prop,
		"tier":        ev.tier,
		"seed":        ev.seed,
		"level":       "model_checking",
		"coverage":    cov,
		"assumptions": meta.Assumptions,
		"wall_s":      ev.wall,
		"violations":  ev.violations,
	}
	b, _ := json.MarshalIndent(out, "", " ")
	dir := filepath.Join(verifDir, "evidence")
	os.MkdirAll(dir, 0o755)
	os.WriteFile(filepath.Join(dir, ev.prop+".json"), b, 0o644)
}

func ssaAllFunctions(p *ssa.Package) map[*ssa.Function]bool {
	out := map[*ssa.Function]bool{}
	var add func(f *ssa.Function)
	add = func(f *ssa.Function) {
		if f == nil || out[f] {
			return
		}
		out[f] = true
		for _, a := range f.AnonFuncs {
			add(a)
		}
	}
	for _, m := range p.Members {
		switch x := m.(type) {
		case *ssa.Function:
			add(x)
		case *ssa.Type:
			for _, t := range []interface{ String() string }{} {
				_ = t
			}
			mset := p.Prog.MethodSets.MethodSet(x.Type())
			for i := 0; i < mset.Len(); i++ {
				add(p.Prog.MethodValue(mset.At(i)))
			}
			pm := p.Prog.MethodSets.MethodSet(ptrTo(x))
			for i := 0; i < pm.Len(); i++ {
				add(p.Prog.MethodValue(pm.At(i)))
			}
		}
	}
	return out
}

func ptrTo(t *ssa.Type) *typesPointer { return typesNewPointer(t.Type()) }

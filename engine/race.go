package main

import (
	"fmt"
	"strings"
)

// Unordered accesses to Go maps (verifrt.MapRaces). The Go runtime turns two
// goroutines inside the same map, one of them writing, into "fatal error:
// concurrent map read and map write" / "concurrent map writes": unlike other
// data races this one ends the process, i.e. it is a result every caller sees.
// Whether it happens is a matter of timing between scheduling points, which the
// explorer does not enumerate; what the explorer can decide on every explored
// schedule is whether two such accesses are ORDERED by the synchronisation the
// code performs (happens-before by vector clocks over the modelled primitives:
// go, mutexes, channels, sync.Map per key, sync.Once, sync.Pool, WaitGroup,
// atomics, thread exit/join). A pair that is not ordered on an explored
// schedule is reported as `map-race`; it is confirmed on the real build by the
// Go race detector (native replay built with -race), never by this model alone.
//
// Only maps made by gorm's own code after MapRaces() are watched; sync.Map
// contents, harness maps and maps made earlier are not. Every edge the model
// adds that the real primitives do not give can only hide a pair, never invent
// one: releases join into the object's clock instead of replacing it, every
// atomic read-modify-write both acquires and releases, RLock/RUnlock count as
// Lock/Unlock.

type vclock []int

func (a vclock) get(i int) int {
	if i < len(a) {
		return a[i]
	}
	return 0
}

func joinVC(a, b vclock) vclock {
	n := len(a)
	if len(b) > n {
		n = len(b)
	}
	r := make(vclock, n)
	for i := range r {
		r[i] = a.get(i)
		if v := b.get(i); v > r[i] {
			r[i] = v
		}
	}
	return r
}

type mapAccess struct {
	wThread int // -1: never written since it is watched
	wClock  int
	wSite   string
	reads   map[int]int // thread -> its clock at the last read
	rSites  map[int]string
	made    string
}

type hbState struct {
	clocks []vclock               // per thread
	objs   map[interface{}]vclock // synchronisation objects
	maps   map[*mapV]*mapAccess
	checks int // accesses to watched maps checked for ordering
	cross  int // of these: the previous write or a read since was by another goroutine (ordered, else reported)
}

type syncMapKey struct {
	m   *mapV
	idx int
}
type syncMapMiss struct{ m *mapV }
type threadExit struct{ id int }
type chanSlots struct{ ch *chanV } // receive -> later send (free slots of a buffered channel)

func (in *Interp) tid() int {
	if in.cur == nil {
		return 0
	}
	return in.cur.id
}

func (in *Interp) hbEnable() {
	if in.hb != nil {
		return
	}
	in.hb = &hbState{objs: map[interface{}]vclock{}, maps: map[*mapV]*mapAccess{}}
	in.hbClock(in.tid())
}

// hbClock returns the clock of thread t (created on first use: a thread that
// exists without one was started before MapRaces and knows nothing of others).
func (in *Interp) hbClock(t int) vclock {
	h := in.hb
	for len(h.clocks) <= t {
		h.clocks = append(h.clocks, nil)
	}
	if h.clocks[t] == nil {
		c := make(vclock, t+1)
		c[t] = 1
		h.clocks[t] = c
	}
	return h.clocks[t]
}

func (in *Interp) hbTick(t int) {
	c := in.hbClock(t)
	if len(c) <= t {
		c = joinVC(c, make(vclock, t+1))
	}
	c[t]++
	in.hb.clocks[t] = c
}

func (in *Interp) hbAcquire(obj interface{}) {
	if in.hb == nil {
		return
	}
	if oc, ok := in.hb.objs[obj]; ok {
		t := in.tid()
		in.hb.clocks[t] = joinVC(in.hbClock(t), oc)
	}
}

func (in *Interp) hbRelease(obj interface{}) {
	if in.hb == nil {
		return
	}
	t := in.tid()
	in.hb.objs[obj] = joinVC(in.hb.objs[obj], in.hbClock(t))
	in.hbTick(t)
}

// hbSpawn: everything the parent did so far happens before the child's first step.
func (in *Interp) hbSpawn(child int) {
	if in.hb == nil {
		return
	}
	p := in.tid()
	c := joinVC(in.hbClock(p), make(vclock, child+1))
	c[child] = 1
	for len(in.hb.clocks) <= child {
		in.hb.clocks = append(in.hb.clocks, nil)
	}
	in.hb.clocks[child] = c
	in.hbTick(p)
}

func (in *Interp) hbWatch(m *mapV, made string) {
	if in.hb == nil || m == nil {
		return
	}
	in.hb.maps[m] = &mapAccess{wThread: -1, reads: map[int]int{}, rSites: map[int]string{}, made: made}
}

func (in *Interp) hbMapRead(m *mapV, site string) {
	if in.hb == nil || m == nil {
		return
	}
	a := in.hb.maps[m]
	if a == nil {
		return
	}
	t := in.tid()
	c := in.hbClock(t)
	in.hb.checks++
	if a.wThread >= 0 && a.wThread != t {
		in.hb.cross++
	}
	if a.wThread >= 0 && a.wThread != t && a.wClock > c.get(a.wThread) {
		in.hbReport("read", site, t, "write", a.wSite, a.wThread, a)
	}
	a.reads[t] = c.get(t)
	a.rSites[t] = site
}

func (in *Interp) hbMapWrite(m *mapV, site string) {
	if in.hb == nil || m == nil {
		return
	}
	a := in.hb.maps[m]
	if a == nil {
		return
	}
	t := in.tid()
	c := in.hbClock(t)
	if a.wThread >= 0 && a.wThread != t && a.wClock > c.get(a.wThread) {
		in.hbReport("write", site, t, "write", a.wSite, a.wThread, a)
	}
	in.hb.checks++
	if a.wThread >= 0 && a.wThread != t {
		in.hb.cross++
	}
	for rt, rc := range a.reads {
		if rt != t {
			in.hb.cross++
		}
		if rt != t && rc > c.get(rt) {
			in.hbReport("write", site, t, "read", a.rSites[rt], rt, a)
		}
	}
	a.wThread, a.wClock, a.wSite = t, c.get(t), site
	a.reads = map[int]int{}
	a.rSites = map[int]string{}
}

func (in *Interp) hbReport(op, site string, t int, op2, site2 string, t2 int, a *mapAccess) {
	detail := fmt.Sprintf("map made in %s: %s by goroutine %d in %s is not ordered with the %s by goroutine %d in %s (no lock, channel, sync.Map entry or atomic between them on this schedule): the Go runtime ends the process with 'concurrent map %s' when they meet",
		a.made, op, t, site, op2, t2, site2, map[bool]string{true: "writes", false: "read and map write"}[op == "write" && op2 == "write"])
	in.violate("map-race", detail)
	panic(pathAbort{"violation", "map-race"})
}

// gormMade: the function belongs to gorm itself (not to the harness packages laid over it).
func gormMade(pkgPath string) bool {
	return isGormPath(pkgPath) && !strings.Contains(pkgPath, "/internal/verif")
}

// mapIndex is the position of key k in m (-1: absent); keys of the sync.Maps met here are concrete.
func (in *Interp) mapIndex(m *mapV, k Value) int {
	if in.hb == nil {
		return -1
	}
	for i := range m.keys {
		if in.keyEq(m.keys[i], k) {
			return i
		}
	}
	return -1
}

// hbSyncMapDeleted: entry i of sync.Map m is gone. A later Load that misses observes
// the deletion; the clocks of the entries behind it move up with them.
func (in *Interp) hbSyncMapDeleted(m *mapV, i int) {
	if in.hb == nil {
		return
	}
	in.hbRelease(syncMapMiss{m})
	n := len(m.keys) + 1 // length before the deletion
	for j := i; j < n-1; j++ {
		if c, ok := in.hb.objs[syncMapKey{m, j + 1}]; ok {
			in.hb.objs[syncMapKey{m, j}] = c
		} else {
			delete(in.hb.objs, syncMapKey{m, j})
		}
	}
	delete(in.hb.objs, syncMapKey{m, n - 1})
}

package main

import (
	"fmt"
	"strconv"
	"go/constant"
	"go/types"
	"math"
	"strings"

	"golang.org/x/tools/go/ssa"
)

// Value is an interpreter value:
//
//	*Term      bool / integer scalars (possibly symbolic)
//	fltV       concrete float
//	strV       string: concrete length, byte terms
//	structV    struct (vector of cells)
//	arrV       array
//	sliceV     slice header over a shared backing vector
//	iface      interface value with concrete dynamic type
//	*Value     pointer to a cell
//	*mapV      map (insertion ordered)
//	closure / *ssa.Function / nilV   function values
//	tupleV     multi-value result
//	rvalV      reflect.Value model
//	rtype      reflect.Type model (payload of an iface)
//	*chanV     channel
//	handle     native Go object (regexp etc.)
//	opaque     result of un-modelled library code
type Value interface{}

type fltV float64
type strV []*Term
type structV []Value
type arrV []Value
type sliceV struct {
	a        *[]Value
	off, n   int
	capacity int
}
type iface struct {
	t types.Type
	v Value
}
type tupleV []Value
type nilV struct{}
type closure struct {
	fn  *ssa.Function
	env []Value
}
type mapV struct {
	keys []Value
	vals []Value
}
type opaque struct{ what string }
type handle struct {
	obj interface{}
}
type iterV struct {
	m    *mapV
	keys []Value
	vals []Value
	s    strV
	pos  int
}
type chanV struct {
	buf    []Value
	cap    int
	closed bool
}

// bound method value (method value from interface/invoke via reflect)
type boundM struct {
	fn   *ssa.Function
	recv Value
}

type pathAbort struct {
	kind string // assume | infeasible | unsupported | unwind | unknown
	why  string
}

func unsupported(format string, a ...interface{}) {
	panic(pathAbort{"unsupported", fmt.Sprintf(format, a...)})
}

// goPanic is a Go-level panic raised by interpreted code.
type goPanic struct {
	val   Value // an iface
	where string
}

func mkStr(s string) strV {
	r := make(strV, len(s))
	for i := 0; i < len(s); i++ {
		r[i] = bv(8, uint64(s[i]))
	}
	return r
}
func concrete(s strV) (string, bool) {
	b := make([]byte, len(s))
	for i, t := range s {
		if !t.isConst {
			return "", false
		}
		b[i] = byte(t.c)
	}
	return string(b), true
}
func mustStr(v Value, what string) string {
	sv, ok := v.(strV)
	if !ok {
		unsupported("non-string %T in %s", v, what)
	}
	s, ok := concrete(sv)
	if !ok {
		unsupported("symbolic string in %s", what)
	}
	return s
}

func width(b *types.Basic) int {
	switch b.Kind() {
	case types.Int8, types.Uint8:
		return 8
	case types.Int16, types.Uint16:
		return 16
	case types.Int32, types.Uint32:
		return 32
	}
	return 64
}
func isSigned(t types.Type) bool {
	b, ok := t.Underlying().(*types.Basic)
	return ok && b.Info()&types.IsUnsigned == 0
}
func isFloatT(t types.Type) bool {
	b, ok := t.Underlying().(*types.Basic)
	return ok && b.Info()&types.IsFloat != 0
}

func zero(t types.Type) Value {
	if n, ok := t.(*types.Named); ok && n.Obj().Pkg() != nil && n.Obj().Pkg().Path() == "reflect" && n.Obj().Name() == "Value" {
		return rvalV{}
	}
	switch u := t.Underlying().(type) {
	case *types.Basic:
		switch {
		case u.Info()&types.IsBoolean != 0:
			return tFalse
		case u.Info()&types.IsInteger != 0:
			return bv(width(u), 0)
		case u.Info()&types.IsString != 0:
			return strV{}
		case u.Info()&types.IsFloat != 0:
			return fltV(0)
		case u.Kind() == types.UnsafePointer:
			return (*Value)(nil)
		case u.Kind() == types.UntypedNil:
			return nilV{}
		}
		return nilV{}
	case *types.Struct:
		s := make(structV, u.NumFields())
		for i := range s {
			s[i] = zero(u.Field(i).Type())
		}
		return s
	case *types.Array:
		a := make(arrV, u.Len())
		for i := range a {
			a[i] = zero(u.Elem())
		}
		return a
	case *types.Slice:
		return sliceV{}
	case *types.Interface:
		return iface{}
	case *types.Map:
		return (*mapV)(nil)
	case *types.Pointer:
		return (*Value)(nil)
	case *types.Chan:
		return (*chanV)(nil)
	case *types.Signature:
		return nilV{}
	case *types.Tuple:
		r := make(tupleV, u.Len())
		for i := range r {
			r[i] = zero(u.At(i).Type())
		}
		return r
	}
	return nilV{}
}

func constVal(c *ssa.Const) Value {
	if c.Value == nil {
		return zero(c.Type())
	}
	t := c.Type()
	if tp, ok := t.(*types.TypeParam); ok {
		t = tp.Underlying()
	}
	switch u := t.Underlying().(type) {
	case *types.Basic:
		switch {
		case u.Info()&types.IsBoolean != 0:
			return bl(constant.BoolVal(c.Value))
		case u.Info()&types.IsInteger != 0:
			if i, ok := constant.Int64Val(constant.ToInt(c.Value)); ok {
				return bv(width(u), uint64(i))
			}
			u64, _ := constant.Uint64Val(constant.ToInt(c.Value))
			return bv(width(u), u64)
		case u.Info()&types.IsString != 0:
			return mkStr(constant.StringVal(c.Value))
		case u.Info()&types.IsFloat != 0:
			f, _ := constant.Float64Val(c.Value)
			return fltV(f)
		}
	}
	panic("const " + c.String())
}

func copyVal(v Value) Value {
	switch x := v.(type) {
	case structV:
		n := make(structV, len(x))
		for i := range x {
			n[i] = copyVal(x[i])
		}
		return n
	case arrV:
		n := make(arrV, len(x))
		for i := range x {
			n[i] = copyVal(x[i])
		}
		return n
	}
	return v
}

// storeVal writes v into the cell *p; aggregates are written in place so that
// pointers to their fields/elements stay valid.
func storeVal(p *Value, v Value) {
	switch x := v.(type) {
	case structV:
		if cur, ok := (*p).(structV); ok && len(cur) == len(x) {
			for i := range x {
				storeVal(&cur[i], x[i])
			}
			return
		}
		*p = copyVal(x)
	case arrV:
		if cur, ok := (*p).(arrV); ok && len(cur) == len(x) {
			for i := range x {
				storeVal(&cur[i], x[i])
			}
			return
		}
		*p = copyVal(x)
	default:
		*p = v
	}
}

func newCell(v Value) *Value {
	c := new(Value)
	*c = v
	return c
}

func sliceOfVals(vs []Value) sliceV {
	a := append([]Value{}, vs...)
	return sliceV{a: &a, n: len(a), capacity: len(a)}
}
func (s sliceV) at(i int) *Value { return &(*s.a)[s.off+i] }
func (s sliceV) elems() []Value {
	if s.a == nil {
		return nil
	}
	return (*s.a)[s.off : s.off+s.n]
}

// decAtom is a pseudo-byte standing for the whole decimal rendering of a
// 64-bit term (strconv.FormatInt/FormatUint of a symbolic integer). It is only
// meaningful to comparisons between equally shaped strings and to the parsing
// functions; every other string operation rejects it.
func decAtom(t *Term, signed bool) *Term {
	p := 0
	if signed {
		p = 1
	}
	return &Term{op: "dec", w: 8, args: []*Term{t}, p1: p}
}

func hasAtom(s strV) bool {
	for _, b := range s {
		if b.op == "dec" {
			return true
		}
	}
	return false
}

func noAtom(s strV, what string) {
	if hasAtom(s) {
		unsupported("formatted symbolic integer used in %s", what)
	}
}

func strEqAtoms(x, y strV) *Term {
	// single atom against concrete digits
	num := func(a *Term, s strV) *Term {
		str, ok := concrete(s)
		if !ok {
			unsupported("comparison of a formatted symbolic integer with a symbolic string")
		}
		if a.p1 == 1 {
			n, err := strconv.ParseInt(str, 10, 64)
			if err != nil || strconv.FormatInt(n, 10) != str {
				return tFalse
			}
			return mkEq(a.args[0], bv(64, uint64(n)))
		}
		n, err := strconv.ParseUint(str, 10, 64)
		if err != nil || strconv.FormatUint(n, 10) != str {
			return tFalse
		}
		return mkEq(a.args[0], bv(64, n))
	}
	if len(x) == 1 && x[0].op == "dec" && !hasAtom(y) {
		return num(x[0], y)
	}
	if len(y) == 1 && y[0].op == "dec" && !hasAtom(x) {
		return num(y[0], x)
	}
	return matchAtoms(x, y)
}

func isDigitConst(b *Term) bool {
	return b.op != "dec" && b.isConst && ((b.c >= '0' && b.c <= '9') || b.c == '-')
}

// boundary: the element after a number must be a concrete non-digit (or the end)
func numberEnds(s strV) bool {
	if len(s) == 0 {
		return true
	}
	b := s[0]
	return b.op != "dec" && b.isConst && !isDigitConst(b)
}

// matchAtoms compares two strings made of bytes and formatted symbolic
// integers. A formatted integer is delimited by concrete non-digit bytes.
func matchAtoms(x, y strV) *Term {
	if len(x) == 0 || len(y) == 0 {
		return bl(len(x) == 0 && len(y) == 0)
	}
	xa, ya := x[0].op == "dec", y[0].op == "dec"
	switch {
	case !xa && !ya:
		c := mkEq(x[0], y[0])
		if c.isFalse() {
			return c
		}
		return mk("and", 0, c, matchAtoms(x[1:], y[1:]))
	case xa && ya:
		if !numberEnds(x[1:]) || !numberEnds(y[1:]) {
			unsupported("formatted symbolic integers not delimited by concrete non-digit text")
		}
		if x[0].p1 != y[0].p1 {
			unsupported("comparison of signed and unsigned formatted symbolic integers")
		}
		return mk("and", 0, mkEq(x[0].args[0], y[0].args[0]), matchAtoms(x[1:], y[1:]))
	case ya:
		return matchAtoms(y, x)
	}
	// x[0] is an atom, y starts with bytes: take y's concrete number run
	if !numberEnds(x[1:]) {
		unsupported("formatted symbolic integer not delimited by concrete non-digit text")
	}
	n := 0
	for n < len(y) && isDigitConst(y[n]) {
		n++
	}
	if n < len(y) && !(y[n].op != "dec" && y[n].isConst) {
		unsupported("formatted symbolic integer compared with symbolic text")
	}
	if n == 0 {
		if y[0].op != "dec" && !y[0].isConst {
			unsupported("formatted symbolic integer compared with symbolic text")
		}
		return tFalse
	}
	digits, _ := concrete(y[:n])
	var eq *Term
	if x[0].p1 == 1 {
		v, err := strconv.ParseInt(digits, 10, 64)
		if err != nil || strconv.FormatInt(v, 10) != digits {
			return tFalse
		}
		eq = mkEq(x[0].args[0], bv(64, uint64(v)))
	} else {
		v, err := strconv.ParseUint(digits, 10, 64)
		if err != nil || strconv.FormatUint(v, 10) != digits {
			return tFalse
		}
		eq = mkEq(x[0].args[0], bv(64, v))
	}
	return mk("and", 0, eq, matchAtoms(x[1:], y[n:]))
}

func strEq(x, y strV) *Term {
	if hasAtom(x) || hasAtom(y) {
		return strEqAtoms(x, y)
	}
	if len(x) != len(y) {
		return tFalse
	}
	c := tTrue
	for i := range x {
		c = mk("and", 0, c, mkEq(x[i], y[i]))
		if c.isFalse() {
			return c
		}
	}
	return c
}

// strLess is the lexicographic x < y.
func strLess(x, y strV) *Term {
	// less(i) = i==len(y) ? false : i==len(x) ? true : x[i]<y[i] || (x[i]==y[i] && less(i+1))
	var rec func(i int) *Term
	rec = func(i int) *Term {
		if i == len(y) {
			return tFalse
		}
		if i == len(x) {
			return tTrue
		}
		return mk("or", 0, mk("bvult", 0, x[i], y[i]), mk("and", 0, mkEq(x[i], y[i]), rec(i+1)))
	}
	return rec(0)
}

func valEq(a, b Value) *Term {
	switch x := a.(type) {
	case iface:
		y, ok := b.(iface)
		if !ok {
			if _, isNil := b.(nilV); isNil {
				return bl(x.t == nil)
			}
			unsupported("valEq iface vs %T", b)
		}
		if x.t == nil || y.t == nil {
			return bl(x.t == nil && y.t == nil)
		}
		if !types.Identical(x.t, y.t) {
			return tFalse
		}
		return valEq(x.v, y.v)
	case strV:
		return strEq(x, b.(strV))
	case *Term:
		y, ok := b.(*Term)
		if !ok {
			unsupported("valEq term vs %T", b)
		}
		return mkEq(x, y)
	case fltV:
		return bl(x == b.(fltV))
	case *Value:
		y, _ := b.(*Value)
		return bl(x == y)
	case *mapV:
		y, _ := b.(*mapV)
		return bl(x == y)
	case *chanV:
		y, _ := b.(*chanV)
		return bl(x == y)
	case sliceV:
		y, ok := b.(sliceV)
		if ok && y.a != nil && x.a != nil {
			unsupported("slice comparison")
		}
		return bl(x.a == nil && (!ok || y.a == nil))
	case nilV:
		switch y := b.(type) {
		case nilV:
			return tTrue
		case iface:
			return bl(y.t == nil)
		case closure, *ssa.Function, boundM:
			return tFalse
		case *Value:
			return bl(y == nil)
		}
		return tFalse
	case *ssa.Function:
		y, ok := b.(*ssa.Function)
		return bl(ok && x == y)
	case closure, boundM:
		return tFalse
	case structV:
		y := b.(structV)
		c := tTrue
		for i := range x {
			c = mk("and", 0, c, valEq(x[i], y[i]))
		}
		return c
	case arrV:
		y := b.(arrV)
		c := tTrue
		for i := range x {
			c = mk("and", 0, c, valEq(x[i], y[i]))
		}
		return c
	case rtype:
		y, ok := b.(rtype)
		return bl(ok && types.Identical(x.t, y.t))
	case handle:
		y, ok := b.(handle)
		return bl(ok && x.obj == y.obj)
	case opaque:
		unsupported("comparison of opaque value (%s)", x.what)
	case rvalV:
		y, ok := b.(rvalV)
		if !ok {
			return tFalse
		}
		if !x.valid() || !y.valid() {
			return bl(x.valid() == y.valid())
		}
		if !types.Identical(x.t, y.t) {
			return tFalse
		}
		if x.addr != nil || y.addr != nil {
			return bl(x.addr == y.addr)
		}
		switch x.v.(type) {
		case *Value, *mapV, *chanV, *Term, strV:
			return valEq(x.v, y.v)
		}
		unsupported("comparison of reflect.Value of type %s", x.t)
	}
	panic(fmt.Sprintf("valEq %T %T", a, b))
}

func isZeroT(v Value) *Term {
	switch x := v.(type) {
	case *Term:
		if x.w == 0 {
			return mk("not", 0, x)
		}
		return mkEq(x, bv(x.w, 0))
	case fltV:
		return bl(x == 0 && !math.Signbit(float64(x)))
	case strV:
		return bl(len(x) == 0)
	case structV:
		c := tTrue
		for _, f := range x {
			c = mk("and", 0, c, isZeroT(f))
		}
		return c
	case arrV:
		c := tTrue
		for _, f := range x {
			c = mk("and", 0, c, isZeroT(f))
		}
		return c
	case *Value:
		return bl(x == nil)
	case *mapV:
		return bl(x == nil)
	case *chanV:
		return bl(x == nil)
	case sliceV:
		return bl(x.a == nil)
	case iface:
		return bl(x.t == nil)
	case nilV:
		return tTrue
	case closure, *ssa.Function, boundM:
		return tFalse
	case rvalV:
		return bl(!x.valid())
	}
	panic(fmt.Sprintf("isZero %T", v))
}

func typeStr(t types.Type) string {
	return types.TypeString(t, func(p *types.Package) string { return p.Name() })
}

func describe(v Value) string {
	switch x := v.(type) {
	case *Term:
		return x.String()
	case strV:
		if s, ok := concrete(x); ok {
			return fmt.Sprintf("%q", s)
		}
		var sb strings.Builder
		sb.WriteString("str[")
		for i, t := range x {
			if i > 0 {
				sb.WriteByte(' ')
			}
			if t.isConst {
				sb.WriteString(fmt.Sprintf("%q", string([]byte{byte(t.c)})))
			} else {
				sb.WriteString(t.String())
			}
		}
		sb.WriteString("]")
		return sb.String()
	case iface:
		if x.t == nil {
			return "nil"
		}
		return typeStr(x.t) + "(" + describe(x.v) + ")"
	case structV:
		var sb strings.Builder
		sb.WriteString("{")
		for i, f := range x {
			if i > 0 {
				sb.WriteString(", ")
			}
			sb.WriteString(describe(f))
		}
		sb.WriteString("}")
		return sb.String()
	case sliceV:
		var sb strings.Builder
		sb.WriteString("[")
		for i, f := range x.elems() {
			if i > 0 {
				sb.WriteString(", ")
			}
			sb.WriteString(describe(f))
		}
		sb.WriteString("]")
		return sb.String()
	case *Value:
		if x == nil {
			return "nil"
		}
		return "&" + describe(*x)
	case fltV:
		return fmt.Sprint(float64(x))
	case nilV:
		return "nil"
	}
	return fmt.Sprintf("%T", v)
}

package main

import (
	"fmt"
	"go/types"
	"os"
	"path/filepath"
	"sort"
	"strings"
	"sync"

	"golang.org/x/tools/go/packages"
	"golang.org/x/tools/go/ssa"
	"golang.org/x/tools/go/ssa/ssautil"
)

const harnessPkg = "gorm.io/gorm/internal/verifh"
const rtPkg = "gorm.io/gorm/internal/verifrt"

// Env is the loaded program, shared by all paths (read-only after load).
type Env struct {
	prog          *ssa.Program
	pkgs          []*packages.Package
	hpkg          *ssa.Package
	rtpkg         *ssa.Package
	gormPkgs      []*ssa.Package // in dependency order
	runtimeErrorT types.Type
	reflectTypeT  types.Type
	rtypePtrT     types.Type
	reflectValueT types.Type
	errorT        *types.Interface
	sumCache      sync.Map // *ssa.Function -> summaryFn (or nil marker)
	interpCache   sync.Map // *ssa.Function -> bool
	preemptBound  int
	tierN         int // 0 quick, 1 thorough (verifrt.Tier)
	sqlTraces     int      // statement traces replayed on SQLite (sqlcheck)
	sqlMismatch   []string // disagreements between the relational model and SQLite
	overlay       map[string][]byte
	overlayFiles  map[string]string // virtual -> real path
	verbose       bool
	nativeCache   sync.Map
	memo          sync.Map
	constCache    sync.Map
	fnInfos       sync.Map
	crossKind     string
	crossQueries  int
}

type Harness struct {
	Name string
	Fn   *ssa.Function
	NFn  *ssa.Function // optional: shape count per tier
}

// buildOverlay maps /verif/harness/* into /repo as virtual files.
func buildOverlay(verifDir, repoDir string) (map[string][]byte, map[string]string, error) {
	ov := map[string][]byte{}
	files := map[string]string{}
	add := func(virtual, real string) error {
		b, err := os.ReadFile(real)
		if err != nil {
			return err
		}
		ov[virtual] = b
		files[virtual] = real
		return nil
	}
	// harness/verifrt -> /repo/internal/verifrt, harness/verifh -> /repo/internal/verifh
	for _, d := range []string{"verifrt", "verifh"} {
		ents, err := os.ReadDir(filepath.Join(verifDir, "harness", d))
		if err != nil {
			return nil, nil, err
		}
		for _, e := range ents {
			if e.IsDir() || !strings.HasSuffix(e.Name(), ".go") {
				continue
			}
			if err := add(filepath.Join(repoDir, "internal", d, e.Name()), filepath.Join(verifDir, "harness", d, e.Name())); err != nil {
				return nil, nil, err
			}
		}
	}
	// in-package shims: harness/inpkg/<pkgdir>/*.go -> /repo/<pkgdir>/zz_verif_*.go ("root" = module root)
	base := filepath.Join(verifDir, "harness", "inpkg")
	if dirs, err := os.ReadDir(base); err == nil {
		for _, d := range dirs {
			if !d.IsDir() {
				continue
			}
			target := filepath.Join(repoDir, d.Name())
			if d.Name() == "root" {
				target = repoDir
			}
			ents, _ := os.ReadDir(filepath.Join(base, d.Name()))
			for _, e := range ents {
				if strings.HasSuffix(e.Name(), ".go") {
					if err := add(filepath.Join(target, "zz_verif_"+e.Name()), filepath.Join(base, d.Name(), e.Name())); err != nil {
						return nil, nil, err
					}
				}
			}
		}
	}
	return ov, files, nil
}

func loadEnv(verifDir, repoDir string, symbolic bool) (*Env, error) {
	ov, files, err := buildOverlay(verifDir, repoDir)
	if err != nil {
		return nil, err
	}
	cfg := &packages.Config{Mode: packages.LoadAllSyntax, Dir: repoDir, Overlay: ov,
		Env: append(os.Environ(), "GOFLAGS=-mod=mod", "GOPROXY=off", "GOSUMDB=off", "GOTOOLCHAIN=local"),
		BuildFlags: []string{"-tags=verifsym"}}
	pkgs, err := packages.Load(cfg, harnessPkg)
	if err != nil {
		return nil, err
	}
	nerr := 0
	packages.Visit(pkgs, nil, func(p *packages.Package) {
		for _, e := range p.Errors {
			fmt.Fprintln(os.Stderr, "load error:", e)
			nerr++
		}
	})
	if nerr > 0 {
		return nil, fmt.Errorf("%d package load errors", nerr)
	}
	prog, _ := ssautil.AllPackages(pkgs, ssa.InstantiateGenerics)
	prog.Build()
	env := &Env{prog: prog, pkgs: pkgs, overlay: ov, overlayFiles: files, preemptBound: 2}
	for _, p := range prog.AllPackages() {
		switch p.Pkg.Path() {
		case harnessPkg:
			env.hpkg = p
		case rtPkg:
			env.rtpkg = p
		}
	}
	if env.hpkg == nil {
		return nil, fmt.Errorf("harness package not loaded")
	}
	// gorm packages in dependency order for init
	seen := map[*types.Package]bool{}
	var visit func(p *types.Package)
	visit = func(p *types.Package) {
		if seen[p] {
			return
		}
		seen[p] = true
		for _, imp := range p.Imports() {
			visit(imp)
		}
		if isGormPath(p.Path()) || initPkgs[p.Path()] {
			if sp := prog.Package(p); sp != nil {
				env.gormPkgs = append(env.gormPkgs, sp)
			}
		}
	}
	visit(env.hpkg.Pkg)
	if rp := prog.ImportedPackage("runtime"); rp != nil {
		if et := rp.Type("errorString"); et != nil {
			env.runtimeErrorT = et.Type()
		}
	}
	if env.runtimeErrorT == nil {
		env.runtimeErrorT = types.Typ[types.String]
	}
	if rp := prog.ImportedPackage("reflect"); rp != nil {
		env.reflectTypeT = rp.Type("Type").Type()
		env.rtypePtrT = types.NewPointer(rp.Type("rtype").Type())
		env.reflectValueT = rp.Type("Value").Type()
	}
	env.errorT = types.Universe.Lookup("error").Type().Underlying().(*types.Interface)
	return env, nil
}

func (env *Env) harnesses(prefix string) []*Harness {
	var hs []*Harness
	for name, m := range env.hpkg.Members {
		fn, ok := m.(*ssa.Function)
		if !ok || !strings.HasPrefix(name, prefix) {
			continue
		}
		h := &Harness{Name: name, Fn: fn}
		if n, ok := env.hpkg.Members["N_"+strings.TrimPrefix(name, "H_")].(*ssa.Function); ok {
			h.NFn = n
		}
		hs = append(hs, h)
	}
	sort.Slice(hs, func(i, j int) bool { return hs[i].Name < hs[j].Name })
	return hs
}

func (env *Env) isHarnessFn(fn *ssa.Function) bool {
	p := fnPkgPath(fn)
	return p == harnessPkg || p == rtPkg
}

var interpretablePkgs = map[string]bool{
	"errors": true, "unicode/utf8": true, "unicode": true, "go/ast": true, "go/token": true,
	"database/sql/driver": true, "database/sql": true, "strings": true, "strconv": true, "sort": true,
	"bytes": true, "math": true, "math/bits": true, "slices": true, "maps": true, "context": true,
	"sync/atomic": true, "cmp": true, "internal/stringslite": true, "internal/itoa": true,
	"internal/bytealg": true, "time": true, "iter": true, "internal/godebug": false,
}

// interpretable reports whether fn's body is executed from SSA. gorm's own
// packages always are; library code only from an explicit allow-list.
func (env *Env) interpretable(fn *ssa.Function) bool {
	if v, ok := env.interpCache.Load(fn); ok {
		return v.(bool)
	}
	p := fnPkgPath(fn)
	ok := isGormPath(p) || interpretablePkgs[p]
	if !ok && p == "" {
		ok = true // synthetic wrappers without a package (bound methods, thunks)
	}
	if !ok && fn.Synthetic != "" && fn.Blocks != nil {
		// wrappers / thunks / bound-method closures for library types
		ok = true
	}
	if !ok && p == "fmt" {
		n := fn.String()
		ok = strings.HasPrefix(n, "(*fmt.wrapError)") || strings.HasPrefix(n, "(*fmt.wrapErrors)")
	}
	env.interpCache.Store(fn, ok)
	return ok
}

func (env *Env) newInterp(e *Explorer) *Interp {
	return &Interp{prog: env.prog, e: e, env: env,
		globals: map[*ssa.Global]*Value{}, syncMaps: map[*Value]*mapV{}, onceDone: map[*Value]bool{},
		funcs: map[*ssa.Function]int{}, nondetN: map[string]int{}, reached: map[string]bool{},
		asciiOK: map[*Term]bool{}, natives: map[string]Value{}, ptrIDs: map[*Value]int{}}
}

// runInits interprets the package initialisers of gorm's packages and of the
// harness packages (a path is a fresh world).
func (in *Interp) runInits() {
	for _, p := range in.env.gormPkgs {
		if f := p.Func("init"); f != nil {
			in.callInit(f)
		}
	}
}

func (in *Interp) callInit(f *ssa.Function) {
	// the synthetic package initialiser calls the inits of imported packages
	// (skipped by the summary table unless they are gorm packages, which have
	// already run) and then initialises the package's own variables.
	in.call(f, nil, nil, nil)
}

func (in *Interp) waitAllIfAny() {
	if len(in.threads) > 1 {
		in.waitAll()
	}
}

func (in *Interp) stackHint() string {
	return fmt.Sprintf("(steps=%d depth=%d)", in.steps, in.depth)
}

// ---- violations, samples

func (in *Interp) modelWant() map[string]int {
	want := map[string]int{}
	for _, nd := range in.nondets {
		want[nd.t.name] = nd.t.w
	}
	return want
}

func (in *Interp) violateNoThrow(label, detail string) {
	if in.violation != nil {
		return
	}
	_, model := in.e.solver.check(nil, in.modelWant())
	in.recordViolation(label, detail, model)
}

func (in *Interp) recordViolation(label, detail string, model map[string]uint64) {
	if model == nil {
		model = map[string]uint64{}
	}
	sig := label
	if len(in.tags) > 0 {
		sig += "/" + strings.Join(in.tags, "/")
	}
	in.violation = &Violation{Label: label, Signature: sig, Tags: append([]string{}, in.tags...), Assign: model, Detail: detail,
		Decisions: append([]int{}, in.e.decisions...)}
}

func (in *Interp) violate(label, detail string) {
	in.violateNoThrow(label, detail)
}

func (in *Interp) makeSample(h *Harness, shape int, model map[string]uint64) *PathSample {
	s := &PathSample{Harness: h.Name, Shape: shape, Assign: model, Threaded: len(in.threads) > 1}
	memo := map[*Term]uint64{}
	for _, o := range in.observes {
		s.Observes = append(s.Observes, o.label+"="+in.fmtObs(o.val, model, memo))
	}
	for l := range in.reached {
		s.Reached = append(s.Reached, l)
	}
	sort.Strings(s.Reached)
	return s
}

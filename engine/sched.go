package main

import (
	"go/types"

	"golang.org/x/tools/go/ssa"
)

// Goroutines: every interpreted goroutine is a real goroutine, but exactly one
// runs at a time (baton passing). Scheduling points are mutex operations,
// channel operations, `go`, thread exit, verifrt.Yield and the harness-declared
// boundary calls. At a point with several enabled threads the choice is an
// explorer decision, i.e. part of the symbolic exploration.

type thread struct {
	id      int
	resume  chan struct{}
	done    bool
	enabled func() bool // nil = runnable
	what    string
	parked  bool // inside verifrt.Park
}

type threadKill struct{}

type mutexState struct {
	locked  bool
	readers int
}

type schedState struct {
	mutexes     map[*Value]*mutexState
	abort       interface{} // panic value from a non-main thread
	dead        bool
	preemptions int
	trace       []int
	bound       int
	boundSet    bool
	syncMapPts  bool // sync.Map operations are scheduling points (verifrt.SyncMapPoints)
}

func (in *Interp) sched() *schedState {
	if in.ss == nil {
		in.ss = &schedState{mutexes: map[*Value]*mutexState{}}
	}
	return in.ss
}

func (in *Interp) mainThread() *thread {
	if in.cur == nil {
		t := &thread{id: 0, resume: make(chan struct{}, 1)}
		in.threads = []*thread{t}
		in.cur = t
	}
	return in.threads[0]
}

func (fr *frame) doGo(c *ssa.CallCommon) {
	in := fr.in
	in.e.site = "go in " + fr.fn.String()
	var recv, fv Value
	args := make([]Value, 0, len(c.Args))
	if c.IsInvoke() {
		recv = fr.get(c.Value)
	} else if _, isB := c.Value.(*ssa.Builtin); !isB {
		fv = fr.get(c.Value)
	}
	for _, a := range c.Args {
		args = append(args, fr.get(a))
	}
	in.spawn(func() {
		top := &frame{in: in, fn: fr.fn, locals: newLocals(in.env.info(fr.fn))}
		top.callValue(c, fv, recv, args)
	})
}

// spawn starts an interpreter thread running body.
func (in *Interp) spawn(body func()) {
	in.mainThread()
	t := &thread{id: len(in.threads), resume: make(chan struct{}, 1)}
	in.threads = append(in.threads, t)
	in.hbSpawn(t.id)
	ss := in.sched()
	go func() {
		<-t.resume
		defer func() {
			r := recover()
			if _, ok := r.(threadKill); ok {
				return
			}
			t.done = true
			if r != nil {
				// an unrecovered panic in a goroutine crashes the program; engine
				// aborts travel the same way: main re-raises
				ss.abort = r
				in.cur = in.threads[0]
				in.threads[0].resume <- struct{}{}
				return
			}
			in.hbRelease(threadExit{t.id})
			in.switchFromDone()
		}()
		if ss.dead {
			panic(threadKill{})
		}
		body()
	}()
	in.schedPoint("go")
}

// enabledThreads lists threads that can run now.
func (in *Interp) enabledThreads() []*thread {
	var r []*thread
	for _, t := range in.threads {
		if t.done {
			continue
		}
		if t.enabled == nil || t.enabled() {
			r = append(r, t)
		}
	}
	return r
}

// schedPoint lets the explorer pick which enabled thread continues.
func (in *Interp) schedPoint(what string) {
	if len(in.threads) <= 1 {
		return
	}
	ss := in.sched()
	en := in.enabledThreads()
	if len(en) == 0 {
		in.deadlock(what)
	}
	curEnabled := false
	for _, t := range en {
		if t == in.cur {
			curEnabled = true
		}
	}
	var pick *thread
	if len(en) == 1 {
		pick = en[0]
	} else if curEnabled && ss.preemptions >= in.preemptBound() {
		pick = in.cur
	} else {
		// order: current thread first, so decision 0 = "keep running"
		ord := en
		if curEnabled {
			ord = []*thread{in.cur}
			for _, t := range en {
				if t != in.cur {
					ord = append(ord, t)
				}
			}
		}
		k := in.e.choice(len(ord))
		pick = ord[k]
		if curEnabled && pick != in.cur {
			ss.preemptions++
		}
	}
	ss.trace = append(ss.trace, pick.id)
	in.switchTo(pick)
}

func (in *Interp) switchTo(t *thread) {
	if t == in.cur {
		return
	}
	me := in.cur
	in.cur = t
	t.resume <- struct{}{}
	<-me.resume
	in.afterResume()
}

func (in *Interp) afterResume() {
	ss := in.sched()
	if ss.dead {
		panic(threadKill{})
	}
	if ss.abort != nil && in.cur == in.threads[0] {
		a := ss.abort
		ss.abort = nil
		panic(a)
	}
}

// switchFromDone is called by a finishing non-main thread.
func (in *Interp) switchFromDone() {
	en := in.enabledThreads()
	if len(en) == 0 {
		// everything else is blocked: report through main
		ss := in.sched()
		ss.abort = pathAbort{"deadlock", "all goroutines blocked after thread exit"}
		in.cur = in.threads[0]
		in.threads[0].resume <- struct{}{}
		return
	}
	var pick *thread
	if len(en) == 1 {
		pick = en[0]
	} else {
		pick = en[in.e.choice(len(en))]
	}
	in.cur = pick
	pick.resume <- struct{}{}
}

func (in *Interp) deadlock(what string) {
	panic(pathAbort{"deadlock", "no runnable goroutine at " + what})
}

// block suspends the current thread until cond holds.
func (in *Interp) block(cond func() bool, what string) {
	if cond() {
		return
	}
	if len(in.threads) <= 1 {
		in.deadlock(what)
	}
	me := in.cur
	me.enabled = cond
	me.what = what
	en := in.enabledThreads()
	if len(en) == 0 {
		in.deadlock(what)
	}
	var pick *thread
	if len(en) == 1 {
		pick = en[0]
	} else {
		pick = en[in.e.choice(len(en))]
	}
	in.cur = pick
	pick.resume <- struct{}{}
	<-me.resume
	me.enabled = nil
	in.afterResume()
	if !cond() {
		// woken although not enabled: scheduler bug
		panic("thread resumed while blocked: " + what)
	}
}

// park suspends the current thread until every other thread is finished,
// blocked or parked too (verifrt.Park).
func (in *Interp) park() {
	if len(in.threads) <= 1 {
		return
	}
	me := in.cur
	me.parked = true
	in.block(func() bool {
		for _, t := range in.threads {
			if t == me || t.done || t.parked {
				continue
			}
			if t.enabled == nil || t.enabled() {
				return false
			}
		}
		return true
	}, "park")
	me.parked = false
}

// waitAll runs the other threads to completion (harness join).
func (in *Interp) waitAll() {
	if len(in.threads) <= 1 {
		return
	}
	me := in.cur
	in.block(func() bool {
		for _, t := range in.threads {
			if t != me && !t.done {
				return false
			}
		}
		return true
	}, "waitAll")
	for _, t := range in.threads {
		if t != me {
			in.hbAcquire(threadExit{t.id})
		}
	}
}

// killThreads ends all parked goroutines of this world.
func (in *Interp) killThreads() {
	if len(in.threads) <= 1 {
		return
	}
	ss := in.sched()
	ss.dead = true
	for _, t := range in.threads[1:] {
		if !t.done {
			select {
			case t.resume <- struct{}{}:
			default:
			}
		}
	}
}

// ---- mutexes

func (in *Interp) mutexOp(p *Value, op string) {
	ss := in.sched()
	m := ss.mutexes[p]
	if m == nil {
		m = &mutexState{}
		ss.mutexes[p] = m
	}
	switch op {
	case "Lock":
		in.schedPoint("Lock")
		in.block(func() bool { return !m.locked && m.readers == 0 }, "Mutex.Lock")
		m.locked = true
		in.hbAcquire(p)
	case "Unlock":
		if !m.locked {
			in.goPanicStr("sync: unlock of unlocked mutex")
		}
		m.locked = false
		in.hbRelease(p)
		in.schedPoint("Unlock")
	case "RLock":
		in.schedPoint("RLock")
		in.block(func() bool { return !m.locked }, "RWMutex.RLock")
		m.readers++
		in.hbAcquire(p)
	case "RUnlock":
		if m.readers == 0 {
			in.goPanicStr("sync: RUnlock of unlocked RWMutex")
		}
		m.readers--
		in.hbRelease(p)
		in.schedPoint("RUnlock")
	case "TryLock":
		panic("TryLock handled by caller")
	}
}

// ---- channels

func (fr *frame) chanSend(chv Value, v Value) {
	in := fr.in
	ch := chv.(*chanV)
	if ch == nil {
		in.block(func() bool { return false }, "send on nil channel")
	}
	if ch.closed {
		in.goPanicStr("send on closed channel")
	}
	if ch.cap == 0 {
		unsupported("unbuffered channel send")
	}
	in.block(func() bool { return len(ch.buf) < ch.cap || ch.closed }, "chan send")
	if ch.closed {
		in.goPanicStr("send on closed channel")
	}
	in.hbAcquire(chanSlots{ch}) // a buffered channel used as a semaphore: the receive that freed the slot happens before this send
	ch.buf = append(ch.buf, v)
	in.hbRelease(ch)
	in.schedPoint("send")
}

func (fr *frame) chanRecv(chv Value, commaOk bool, t types.Type) Value {
	in := fr.in
	ch := chv.(*chanV)
	if ch == nil {
		in.block(func() bool { return false }, "receive from nil channel")
	}
	in.schedPoint("recv")
	in.block(func() bool { return len(ch.buf) > 0 || ch.closed }, "chan receive")
	in.hbAcquire(ch)
	in.hbRelease(chanSlots{ch})
	var et types.Type
	if commaOk {
		et = t.(*types.Tuple).At(0).Type()
	} else {
		et = t
	}
	if len(ch.buf) > 0 {
		v := ch.buf[0]
		ch.buf = ch.buf[1:]
		if commaOk {
			return tupleV{v, tTrue}
		}
		return v
	}
	if commaOk {
		return tupleV{zero(et), tFalse}
	}
	return zero(et)
}

func (fr *frame) doSelect(x *ssa.Select) Value {
	in := fr.in
	// ready states
	ready := func() []int {
		var r []int
		for i, st := range x.States {
			ch, _ := fr.get(st.Chan).(*chanV)
			if ch == nil {
				continue
			}
			if st.Dir == types.RecvOnly {
				if len(ch.buf) > 0 || ch.closed {
					r = append(r, i)
				}
			} else if len(ch.buf) < ch.cap || ch.closed {
				r = append(r, i)
			}
		}
		return r
	}
	in.schedPoint("select")
	if !x.Blocking {
		if len(ready()) == 0 {
			res := tupleV{bv(64, ^uint64(0)), tFalse}
			for _, st := range x.States {
				if st.Dir == types.RecvOnly {
					res = append(res, zero(st.Chan.Type().Underlying().(*types.Chan).Elem()))
				}
			}
			return res
		}
	} else {
		in.block(func() bool { return len(ready()) > 0 }, "select")
	}
	r := ready()
	k := r[0]
	if len(r) > 1 {
		k = r[in.e.choice(len(r))]
	}
	res := tupleV{bv(64, uint64(k)), tFalse}
	for i, st := range x.States {
		if st.Dir != types.RecvOnly {
			if i == k {
				fr.chanSend(fr.get(st.Chan), fr.get(st.Send))
			}
			continue
		}
		et := st.Chan.Type().Underlying().(*types.Chan).Elem()
		if i == k {
			ch := fr.get(st.Chan).(*chanV)
			in.hbAcquire(ch)
			in.hbRelease(chanSlots{ch})
			if len(ch.buf) > 0 {
				res = append(res, ch.buf[0])
				ch.buf = ch.buf[1:]
				res[1] = tTrue
			} else {
				res = append(res, zero(et))
			}
		} else {
			res = append(res, zero(et))
		}
	}
	return res
}

func (in *Interp) preemptBound() int {
	if in.ss != nil && in.ss.boundSet {
		return in.ss.bound
	}
	return in.env.preemptBound
}

package main

import (
	"bufio"
	"fmt"
	"io"
	"os"
	"os/exec"
	"strconv"
	"strings"
	"time"
)

// Solver is one persistent SMT-LIB2 solver process (z3 -in, z3-new -in, or
// cvc5 --incremental). All declarations and definitions happen at base level;
// push/pop is used only around single check-sat queries.
type Solver struct {
	kind     string
	cmd      *exec.Cmd
	in       io.WriteCloser
	out      *bufio.Reader
	declared map[string]bool
	defined  map[*Term]string
	ndef     int
	nSat     int
	nUnsat   int
	nUnknown int
	dur      time.Duration
	log      io.Writer
	mirror   *Solver // second solver receiving the same declarations and assertions (cross-check)
	nCross   int
}

type solverError struct{ msg string }

func newSolver(kind string) *Solver {
	var cmd *exec.Cmd
	switch kind {
	case "z3":
		cmd = exec.Command("z3", "-in")
	case "z3-new":
		cmd = exec.Command("z3-new", "-in")
	case "cvc5":
		cmd = exec.Command("cvc5", "--incremental", "--lang=smt2", "--produce-models")
	default:
		panic("unknown solver " + kind)
	}
	in, _ := cmd.StdinPipe()
	out, _ := cmd.StdoutPipe()
	cmd.Stderr = os.Stderr
	if err := cmd.Start(); err != nil {
		panic(err)
	}
	s := &Solver{kind: kind, cmd: cmd, in: in, out: bufio.NewReaderSize(out, 1<<16)}
	if p := os.Getenv("GOSYM_SMTLOG"); p != "" {
		f, _ := os.OpenFile(p, os.O_APPEND|os.O_CREATE|os.O_WRONLY, 0o644)
		s.log = f
	}
	s.reset()
	return s
}

func (s *Solver) close() {
	if s.mirror != nil {
		s.mirror.close()
	}
	s.in.Close()
	s.cmd.Process.Kill()
	s.cmd.Wait()
}

func (s *Solver) send(x string) {
	if s.log != nil {
		io.WriteString(s.log, x+"\n")
	}
	io.WriteString(s.in, x+"\n")
	if s.mirror != nil && !strings.HasPrefix(x, "(set-option") && !strings.HasPrefix(x, "(reset") && !strings.HasPrefix(x, "(check-sat") && !strings.HasPrefix(x, "(get-value") && !strings.HasPrefix(x, "(set-logic") {
		s.mirror.send(x)
	}
}

// crossCheck asks the mirror solver the same question (the push/assert/pop
// framing has already been mirrored by send) and compares the verdicts.
func (s *Solver) crossCheck(res string) {
	if s.mirror == nil {
		return
	}
	s.mirror.send("(check-sat)")
	other := s.mirror.readLine()
	s.nCross++
	if other != "sat" && other != "unsat" {
		other = "unknown"
	}
	if other != res && other != "unknown" && res != "unknown" {
		panic(solverError{"solvers disagree: " + s.kind + " says " + res + ", " + s.mirror.kind + " says " + other})
	}
}

func (s *Solver) reset() {
	if s.mirror != nil {
		s.mirror.reset()
	}
	if s.kind == "cvc5" {
		s.send("(reset)")
		s.send("(set-logic QF_BV)")
		s.send("(set-option :tlimit-per 20000)")
	} else {
		s.send("(reset)")
		s.send("(set-option :timeout 20000)")
	}
	s.declared = map[string]bool{}
	s.defined = map[*Term]string{}
}

func sortOf(w int) string {
	if w == 0 {
		return "Bool"
	}
	return "(_ BitVec " + strconv.Itoa(w) + ")"
}

// render returns the SMT-LIB text of t; compound sub-terms are introduced as
// define-funs at base level so that DAG sharing is preserved.
func (s *Solver) render(t *Term) string {
	if t.isConst {
		if t.w == 0 {
			if t.c != 0 {
				return "true"
			}
			return "false"
		}
		return "(_ bv" + strconv.FormatUint(t.c, 10) + " " + strconv.Itoa(t.w) + ")"
	}
	if t.op == "sym" {
		if !s.declared[t.name] {
			s.declared[t.name] = true
			s.send("(declare-const " + t.name + " " + sortOf(t.w) + ")")
		}
		return t.name
	}
	if n, ok := s.defined[t]; ok {
		return n
	}
	var sb strings.Builder
	switch t.op {
	case "extract":
		fmt.Fprintf(&sb, "((_ extract %d %d)", t.p1, t.p2)
	case "zero_extend", "sign_extend":
		fmt.Fprintf(&sb, "((_ %s %d)", t.op, t.p1)
	default:
		sb.WriteString("(" + t.op)
	}
	for _, a := range t.args {
		sb.WriteByte(' ')
		sb.WriteString(s.render(a))
	}
	sb.WriteByte(')')
	s.ndef++
	n := "d!" + strconv.Itoa(s.ndef)
	s.send("(define-fun " + n + " () " + sortOf(t.w) + " " + sb.String() + ")")
	s.defined[t] = n
	return n
}

func (s *Solver) assert(t *Term) {
	s.send("(assert " + s.render(t) + ")")
}

func (s *Solver) readLine() string {
	line, err := s.out.ReadString('\n')
	if err != nil {
		panic(solverError{"solver died: " + err.Error()})
	}
	line = strings.TrimSpace(line)
	if strings.HasPrefix(line, "(error") {
		panic(solverError{line})
	}
	return line
}

// check asks whether the asserted path condition together with the extra
// terms is satisfiable. If wantModel != nil and the answer is sat, the model
// values of the given symbols are returned.
func (s *Solver) check(extra []*Term, wantModel map[string]int) (string, map[string]uint64) {
	return s.checkX(extra, wantModel, false)
}

func (s *Solver) checkX(extra []*Term, wantModel map[string]int, cross bool) (string, map[string]uint64) {
	t0 := time.Now()
	xs := make([]string, len(extra))
	for i, e := range extra {
		xs[i] = s.render(e)
	}
	s.send("(push 1)")
	for _, x := range xs {
		s.send("(assert " + x + ")")
	}
	s.send("(check-sat)")
	res := s.readLine()
	if cross {
		s.crossCheck(res)
	}
	var model map[string]uint64
	switch res {
	case "sat":
		s.nSat++
		if wantModel != nil {
			model = map[string]uint64{}
			for n, w := range wantModel {
				if !s.declared[n] {
					model[n] = 0 // unconstrained: any value is a witness
					continue
				}
				s.send("(get-value (" + n + "))")
				model[n] = parseValue(s.readValue(), w)
			}
		}
	case "unsat":
		s.nUnsat++
	default:
		s.nUnknown++
		res = "unknown"
	}
	s.send("(pop 1)")
	s.dur += time.Since(t0)
	return res, model
}

// readValue reads one balanced s-expression reply.
func (s *Solver) readValue() string {
	var sb strings.Builder
	depth := 0
	started := false
	for {
		line := s.readLine()
		sb.WriteString(line)
		for _, c := range line {
			if c == '(' {
				depth++
				started = true
			} else if c == ')' {
				depth--
			}
		}
		if started && depth <= 0 {
			return sb.String()
		}
	}
}

func parseValue(reply string, w int) uint64 {
	// ((name #x0a)) | ((name #b101)) | ((name true)) | ((name (_ bv10 8)))
	r := strings.TrimSpace(reply)
	r = strings.TrimPrefix(r, "((")
	i := strings.IndexAny(r, " \t")
	v := strings.TrimSpace(r[i+1:])
	v = strings.TrimSuffix(v, "))")
	v = strings.TrimSpace(v)
	switch {
	case v == "true":
		return 1
	case v == "false":
		return 0
	case strings.HasPrefix(v, "#x"):
		n, _ := strconv.ParseUint(v[2:], 16, 64)
		return n
	case strings.HasPrefix(v, "#b"):
		n, _ := strconv.ParseUint(v[2:], 2, 64)
		return n
	case strings.HasPrefix(v, "(_ bv"):
		f := strings.Fields(v[5:])
		n, _ := strconv.ParseUint(f[0], 10, 64)
		return n
	}
	panic(solverError{"cannot parse model value: " + reply})
}

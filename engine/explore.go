package main

import (
	"fmt"
	"os"
	"sort"
	"sync"
	"time"
)

// Explorer drives one path: stateless DFS by decision-vector replay.
type Explorer struct {
	prefix    []int
	decisions []int
	arity     []int
	pc        []*Term
	solver    *Solver
	newWork   [][]int
	branches  int // solver-decided branches on this path
	site      string
	sites     map[string]int
	known     map[string]uint64 // symbols pinned to a constant by the path condition
	memo      map[*Term]*Term
}

// learn records sym == const facts from a condition added to the path condition.
func (e *Explorer) learn(c *Term) {
	switch c.op {
	case "sym":
		if c.w == 0 {
			e.pin(c.name, 1)
		}
	case "not":
		a := c.args[0]
		if a.op == "sym" && a.w == 0 {
			e.pin(a.name, 0)
		} else if a.op == "or" {
			// not(x or y) = not x and not y
			e.learn(mkNot(a.args[0]))
			e.learn(mkNot(a.args[1]))
		} else if a.op == "not" {
			e.learn(a.args[0])
		}
	case "=":
		a, b := c.args[0], c.args[1]
		if a.op == "sym" && b.isConst {
			e.pin(a.name, b.c)
		} else if b.op == "sym" && a.isConst {
			e.pin(b.name, a.c)
		}
	case "and":
		e.learn(c.args[0])
		e.learn(c.args[1])
	}
}

func (e *Explorer) pin(name string, v uint64) {
	if e.known == nil {
		e.known = map[string]uint64{}
	}
	if _, ok := e.known[name]; !ok {
		e.known[name] = v
		e.memo = nil
	}
}

// simp rewrites t under the pinned symbols (constant folding through mk).
func (e *Explorer) simp(t *Term) *Term {
	if len(e.known) == 0 || t.isConst {
		return t
	}
	if e.memo == nil {
		e.memo = map[*Term]*Term{}
	}
	if r, ok := e.memo[t]; ok {
		return r
	}
	var r *Term
	switch t.op {
	case "sym":
		if v, ok := e.known[t.name]; ok {
			if t.w == 0 {
				r = bl(v != 0)
			} else {
				r = bv(t.w, v)
			}
		} else {
			r = t
		}
	case "ite":
		c := e.simp(t.args[0])
		if c.isConst {
			if c.c != 0 {
				r = e.simp(t.args[1])
			} else {
				r = e.simp(t.args[2])
			}
		} else {
			r = mkIte(c, e.simp(t.args[1]), e.simp(t.args[2]))
		}
	case "extract", "zero_extend", "sign_extend":
		a := e.simp(t.args[0])
		if a == t.args[0] {
			r = t
		} else if a.isConst {
			switch t.op {
			case "extract":
				r = bv(t.w, a.c>>uint(t.p2))
			case "zero_extend":
				r = bv(t.w, a.c)
			default:
				r = bv(t.w, uint64(sext(a.c, a.w)))
			}
		} else {
			r = &Term{op: t.op, w: t.w, args: []*Term{a}, p1: t.p1, p2: t.p2}
		}
	default:
		changed := false
		args := make([]*Term, len(t.args))
		for i, a := range t.args {
			args[i] = e.simp(a)
			if args[i] != a {
				changed = true
			}
		}
		if !changed {
			r = t
		} else {
			r = mk(t.op, t.w, args...)
		}
	}
	e.memo[t] = r
	return r
}

func (e *Explorer) feasible(c *Term) string {
	if e.sites != nil {
		e.sites["Q "+e.site]++
	}
	r, _ := e.solver.check([]*Term{c}, nil)
	return r
}

func (e *Explorer) record(d, n int) {
	e.decisions = append(e.decisions, d)
	e.arity = append(e.arity, n)
}

func (e *Explorer) addPC(c *Term) {
	e.pc = append(e.pc, c)
	e.solver.assert(c)
	e.learn(c)
}

// branch decides a condition; both sides are explored when both are feasible.
func (e *Explorer) branch(c *Term) bool {
	if c.isConst {
		return c.c != 0
	}
	if sc := e.simp(c); sc.isConst {
		// decided by symbols the path condition pins to constants: recorded as a
		// forced decision so that replay stays aligned
		k := len(e.decisions)
		_ = k
		if sc.c != 0 {
			e.record(1, 1)
			return true
		}
		e.record(0, 1)
		return false
	}
	k := len(e.decisions)
	var d bool
	if k < len(e.prefix) {
		d = e.prefix[k] == 1
	} else {
		t := e.feasible(c)
		if t == "unknown" {
			panic(pathAbort{"unknown", "solver returned unknown on a branch condition"})
		}
		if t == "unsat" {
			d = false // the path condition is satisfiable, so ¬c is
			e.record(0, 1)
			e.addPC(mkNot(c))
			return false
		}
		f := e.feasible(mkNot(c))
		if f == "unknown" {
			panic(pathAbort{"unknown", "solver returned unknown on a branch condition"})
		}
		if f == "sat" {
			alt := append(append([]int{}, e.decisions...), 0)
			e.newWork = append(e.newWork, alt)
			e.branches++
			if e.sites != nil {
				e.sites[e.site]++
			}
		}
		d = true
	}
	if d {
		e.record(1, 2)
		e.addPC(c)
	} else {
		e.record(0, 2)
		e.addPC(mkNot(c))
	}
	return d
}

// choice is an n-way non-data decision (scheduling).
func (e *Explorer) choice(n int) int {
	if n <= 1 {
		return 0
	}
	k := len(e.decisions)
	if k < len(e.prefix) {
		d := e.prefix[k]
		e.record(d, n)
		return d
	}
	if os.Getenv("GOSYM_DEBUG_CHOICE") != "" {
		fmt.Fprintf(os.Stderr, "CHOICE n=%d site=%s\n", n, e.site)
	}
	for alt := 1; alt < n; alt++ {
		e.newWork = append(e.newWork, append(append([]int{}, e.decisions...), alt))
	}
	e.branches++
	e.record(0, n)
	return 0
}

// assume adds c to the path condition; an infeasible assumption ends the path.
func (e *Explorer) assume(c *Term) {
	if sc := e.simp(c); sc.isTrue() {
		return
	}
	if c.isConst {
		if c.c == 0 {
			panic(pathAbort{"assume", "assumption false"})
		}
		return
	}
	switch e.feasible(c) {
	case "unsat":
		panic(pathAbort{"assume", "assumption infeasible"})
	case "unknown":
		panic(pathAbort{"unknown", "solver returned unknown on an assumption"})
	}
	e.addPC(c)
}

// ---- results

type Violation struct {
	Harness   string            `json:"harness"`
	Shape     int               `json:"shape"`
	Label     string            `json:"label"`
	Signature string            `json:"signature"`
	Tags      []string          `json:"tags,omitempty"`
	Assign    map[string]uint64 `json:"assign"`
	Detail    string            `json:"detail,omitempty"`
	Decisions []int             `json:"decisions,omitempty"`
	Replay    string            `json:"replay,omitempty"`
	Threaded  bool              `json:"threaded,omitempty"`
	Schedule  []int             `json:"schedule,omitempty"`
	Confirmed string            `json:"confirmed,omitempty"`
	Tier      int               `json:"tier,omitempty"` // 1 = found in the thorough tier (verifrt.Tier)
}

type PathSample struct {
	Threaded bool              `json:"threaded,omitempty"`
	Harness  string            `json:"harness"`
	Shape    int               `json:"shape"`
	Assign   map[string]uint64 `json:"assign"`
	Observes []string          `json:"observes"`
	Reached  []string          `json:"reached,omitempty"`
}

type InstanceResult struct {
	Harness     string
	Shape       int
	Paths       int // completed feasible paths
	AssumeDrops int
	Branches    int
	Aborts      map[string]int // kind:why -> count (non-assume)
	Violations  []Violation
	Samples     []PathSample
	Reached     map[string]int
	Funcs       map[string]int
	Sat, Unsat  int
	Unknown     int
	SolverTime  time.Duration
	Steps       int
	Asserts     int
	MapChecks   [2]int
	Wall        time.Duration
	stopped     bool
}

type workItem struct {
	inst   *InstanceResult
	h      *Harness
	prefix []int
}

// exploreAll explores all paths of all instances with a shared work queue.
func (env *Env) exploreAll(insts []*InstanceResult, hs map[string]*Harness, jobs int, solverKind string, maxPathsPerInst int, deadline time.Time) {
	crossN := 0
	defer func() { env.crossQueries = crossN }()
	var mu sync.Mutex
	cond := sync.NewCond(&mu)
	var queue []workItem
	for i := len(insts) - 1; i >= 0; i-- {
		in := insts[i]
		in.Aborts = map[string]int{}
		in.Reached = map[string]int{}
		in.Funcs = map[string]int{}
		queue = append(queue, workItem{inst: in, h: hs[in.Harness], prefix: []int{}})
	}
	active := 0
	stop := false
	var fatal interface{}
	var wg sync.WaitGroup
	t0 := time.Now()
	for w := 0; w < jobs; w++ {
		wg.Add(1)
		go func() {
			defer wg.Done()
			s := newSolver(solverKind)
			if env.crossKind != "" {
				s.mirror = newSolver(env.crossKind)
			}
			defer func() {
				mu.Lock()
				crossN += s.nCross
				mu.Unlock()
				s.close()
			}()
			for {
				mu.Lock()
				for len(queue) == 0 && active > 0 && !stop {
					cond.Wait()
				}
				if stop || (len(queue) == 0 && active == 0) {
					mu.Unlock()
					cond.Broadcast()
					return
				}
				it := queue[len(queue)-1]
				queue = queue[:len(queue)-1]
				active++
				mu.Unlock()

				sat0, unsat0, unk0, dur0 := s.nSat, s.nUnsat, s.nUnknown, s.dur
				pr := env.runPath(it.h, it.inst.Shape, it.prefix, s)

				mu.Lock()
				active--
				res := it.inst
				res.Sat += s.nSat - sat0
				res.Unsat += s.nUnsat - unsat0
				res.Unknown += s.nUnknown - unk0
				res.SolverTime += s.dur - dur0
				if pr.fatal != nil && fatal == nil {
					fatal = pr.fatal
					stop = true
				}
				if !res.stopped {
					for _, p := range pr.newWork {
						queue = append(queue, workItem{inst: res, h: it.h, prefix: p})
					}
				}
				res.Branches += pr.branches
				res.Steps += pr.steps
				res.Asserts += pr.asserts
				res.MapChecks[0] += pr.mapChecks[0]
				res.MapChecks[1] += pr.mapChecks[1]
				for f, n := range pr.funcs {
					res.Funcs[f] += n
				}
				for l := range pr.reached {
					res.Reached[l]++
				}
				switch {
				case pr.abort != nil && pr.abort.kind == "assume":
					res.AssumeDrops++
				case pr.abort != nil && pr.abort.kind == "violation":
					res.Paths++
				case pr.abort != nil:
					res.Aborts[pr.abort.kind+": "+pr.abort.why]++
				default:
					res.Paths++
				}
				if pr.violation != nil {
					res.Violations = append(res.Violations, *pr.violation)
				}
				if pr.sample != nil && len(res.Samples) < 8 {
					res.Samples = append(res.Samples, *pr.sample)
				}
				if maxPathsPerInst > 0 && res.Paths+res.AssumeDrops > maxPathsPerInst && !res.stopped {
					res.Aborts["unwind: path budget exceeded"]++
					res.stopped = true
				}
				if !deadline.IsZero() && time.Now().After(deadline) && !stop {
					res.Aborts["unwind: time budget exceeded"]++
					stop = true
				}
				res.Wall = time.Since(t0)
				mu.Unlock()
				cond.Broadcast()
			}
		}()
	}
	wg.Wait()
	if fatal != nil {
		panic(fatal)
	}
	for _, res := range insts {
		sort.Slice(res.Violations, func(i, j int) bool { return res.Violations[i].Signature < res.Violations[j].Signature })
	}
}

type pathResult struct {
	newWork   [][]int
	branches  int
	steps     int
	asserts   int
	mapChecks [2]int // map accesses checked for ordering, of these across goroutines (race.go)
	funcs     map[string]int
	reached   map[string]bool
	abort     *pathAbort
	violation *Violation
	sample    *PathSample
	fatal     interface{}
}

func (env *Env) runPath(h *Harness, shape int, prefix []int, s *Solver) (pr pathResult) {
	s.reset()
	e := &Explorer{prefix: prefix, solver: s}
	if profileSites != nil {
		e.sites = map[string]int{}
		defer func() {
			profileMu.Lock()
			for k, v := range e.sites {
				profileSites[k] += v
			}
			profileMu.Unlock()
		}()
	}
	in := env.newInterp(e)
	defer func() {
		in.killThreads()
		pr.newWork = e.newWork
		pr.branches = e.branches
		pr.steps = in.steps
		pr.asserts = in.nAsserts
		if in.hb != nil {
			pr.mapChecks = [2]int{in.hb.checks, in.hb.cross}
		}
		pr.reached = in.reached
		pr.funcs = map[string]int{}
		for f, n := range in.funcs {
			if isGormPath(fnPkgPath(f)) && !env.isHarnessFn(f) {
				pr.funcs[f.String()] += n
			}
		}
	}()
	defer func() {
		r := recover()
		if r == nil {
			return
		}
		switch x := r.(type) {
		case pathAbort:
			pr.abort = &x
			if os.Getenv("GOSYM_DEBUG_ABORT") != "" && x.kind != "assume" && x.kind != "violation" {
				_, m := s.check(nil, in.modelWant())
				fmt.Fprintf(os.Stderr, "ABORT %s shape %d: %s: %s tags=%v model=%v\n", h.Name, shape, x.kind, x.why, in.tags, m)
			}
			if x.kind == "violation" {
				pr.violation = in.violation
			} else if x.kind == "overflow" {
				// unbounded recursion: reported as a violation only if the native
				// replay crashes with a stack overflow (else inconclusive)
				in.violateNoThrow("stack-overflow", x.why)
				pr.violation = in.violation
				pr.abort = &pathAbort{"violation", x.why}
			} else if x.kind == "deadlock" {
				in.violate("deadlock", x.why)
				pr.violation = in.violation
				pr.abort = &pathAbort{"violation", x.why}
			}
		case *goPanic:
			// an unrecovered Go panic escaping the harness
			in.violateNoThrow("panic", "unrecovered panic: "+describe(x.val)+" at "+x.where)
			pr.violation = in.violation
			pr.abort = &pathAbort{"violation", "panic"}
		case solverError:
			pr.fatal = fmt.Sprintf("solver error: %s", x.msg)
		default:
			pr.fatal = fmt.Sprintf("engine panic in %s shape %d: %v\n%s", h.Name, shape, r, in.stackHint())
		}
		if pr.violation != nil {
			pr.violation.Harness = h.Name
			pr.violation.Shape = shape
			if len(in.threads) > 1 {
				pr.violation.Threaded = true
				if in.ss != nil {
					pr.violation.Schedule = append([]int{}, in.ss.trace...)
				}
			}
		}
	}()
	in.runInits()
	in.call(h.Fn, nil, []Value{bv(64, uint64(shape))}, nil)
	in.waitAllIfAny()
	in.reached["<end>"] = true
	// path completed: take a witness model for sampling / differential validation
	want := map[string]int{}
	for _, nd := range in.nondets {
		want[nd.t.name] = nd.t.w
	}
	r, model := s.check(nil, want)
	if r != "sat" {
		panic(pathAbort{"unknown", "path condition not satisfiable at end of path: " + r})
	}
	pr.sample = in.makeSample(h, shape, model)
	if os.Getenv("GOSYM_DEBUG_PATHS") != "" {
		fmt.Fprintf(os.Stderr, "PATH %v model=%v\n", e.decisions, model)
	}
	return
}

var profileSites map[string]int
var profileMu sync.Mutex

func init() {
	if os.Getenv("GOSYM_PROFILE") != "" {
		profileSites = map[string]int{}
	}
}

func dumpProfile() {
	if profileSites == nil {
		return
	}
	type kv struct {
		k string
		v int
	}
	var l []kv
	for k, v := range profileSites {
		l = append(l, kv{k, v})
	}
	sort.Slice(l, func(i, j int) bool { return l[i].v > l[j].v })
	for i, x := range l {
		if i > 25 {
			break
		}
		fmt.Fprintf(os.Stderr, "FORKS %6d %s\n", x.v, x.k)
	}
}

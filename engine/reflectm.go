package main

import (
	"go/types"
	"reflect"
	"strings"

	"golang.org/x/tools/go/ssa"
)

// The reflect model: reflect.Type is a wrapper over go/types.Type, reflect.Value
// is (type, rvalue or cell, addressable).

type rtype struct{ t types.Type }

type rvalV struct {
	t    types.Type
	v    Value
	addr *Value
}

func (r rvalV) valid() bool { return r.t != nil }
func (r rvalV) load() Value {
	if r.addr != nil {
		return *r.addr
	}
	return r.v
}

func asR(v Value) rvalV {
	if r, ok := v.(rvalV); ok {
		return r
	}
	if _, ok := v.(opaque); ok {
		unsupported("opaque reflect.Value")
	}
	return rvalV{}
}

func (in *Interp) rtI(t types.Type) iface {
	if t == nil {
		return iface{}
	}
	return iface{t: in.env.rtypePtrT, v: rtype{t}}
}

func rtOf(v Value) types.Type {
	i, ok := v.(iface)
	if !ok || i.t == nil {
		unsupported("nil reflect.Type")
	}
	return i.v.(rtype).t
}

func kindOf(t types.Type) reflect.Kind {
	if t == nil {
		return reflect.Invalid
	}
	switch u := t.Underlying().(type) {
	case *types.Basic:
		switch u.Kind() {
		case types.Bool, types.UntypedBool:
			return reflect.Bool
		case types.Int, types.UntypedInt:
			return reflect.Int
		case types.Int8:
			return reflect.Int8
		case types.Int16:
			return reflect.Int16
		case types.Int32, types.UntypedRune:
			return reflect.Int32
		case types.Int64:
			return reflect.Int64
		case types.Uint:
			return reflect.Uint
		case types.Uint8:
			return reflect.Uint8
		case types.Uint16:
			return reflect.Uint16
		case types.Uint32:
			return reflect.Uint32
		case types.Uint64:
			return reflect.Uint64
		case types.Uintptr:
			return reflect.Uintptr
		case types.Float32:
			return reflect.Float32
		case types.Float64, types.UntypedFloat:
			return reflect.Float64
		case types.Complex64:
			return reflect.Complex64
		case types.Complex128:
			return reflect.Complex128
		case types.String, types.UntypedString:
			return reflect.String
		case types.UnsafePointer:
			return reflect.UnsafePointer
		}
	case *types.Array:
		return reflect.Array
	case *types.Chan:
		return reflect.Chan
	case *types.Signature:
		return reflect.Func
	case *types.Interface:
		return reflect.Interface
	case *types.Map:
		return reflect.Map
	case *types.Pointer:
		return reflect.Pointer
	case *types.Slice:
		return reflect.Slice
	case *types.Struct:
		return reflect.Struct
	}
	return reflect.Invalid
}

func anonTuple(t *types.Tuple) *types.Tuple {
	vs := make([]*types.Var, t.Len())
	for i := range vs {
		vs[i] = types.NewVar(0, nil, "", t.At(i).Type())
	}
	return types.NewTuple(vs...)
}

func reflectTypeString(t types.Type) string {
	if sig, ok := t.(*types.Signature); ok {
		// reflect prints function types without parameter names
		t = types.NewSignatureType(nil, nil, nil, anonTuple(sig.Params()), anonTuple(sig.Results()), sig.Variadic())
	}
	s := typeStr(t)
	s = strings.ReplaceAll(s, "interface{}", "interface {}")
	if s == "any" {
		s = "interface {}"
	}
	s = strings.ReplaceAll(s, "]any", "]interface {}")
	return s
}

func (in *Interp) structFieldV(st *types.Struct, i int, index []int) Value {
	f := st.Field(i)
	pk := ""
	if !f.Exported() && f.Pkg() != nil {
		pk = f.Pkg().Path()
	}
	idx := make([]Value, len(index))
	for k, x := range index {
		idx[k] = bv(64, uint64(x))
	}
	return structV{mkStr(f.Name()), mkStr(pk), in.rtI(f.Type()), mkStr(st.Tag(i)), bv(64, 0), sliceOfVals(idx), bl(f.Embedded())}
}

func (in *Interp) methodSetOf(t types.Type) *types.MethodSet {
	return in.prog.MethodSets.MethodSet(t)
}

func (in *Interp) rtypeMethod(rt rtype, m string, args []Value) Value {
	t := rt.t
	switch m {
	case "String":
		return mkStr(reflectTypeString(t))
	case "Kind":
		return bv(64, uint64(kindOf(t)))
	case "Name":
		switch n := t.(type) {
		case *types.Named:
			return mkStr(n.Obj().Name())
		case *types.Basic:
			return mkStr(n.Name())
		case *types.Alias:
			return in.rtypeMethod(rtype{types.Unalias(n)}, m, args)
		}
		return strV{}
	case "PkgPath":
		if n, ok := t.(*types.Named); ok && n.Obj().Pkg() != nil {
			return mkStr(n.Obj().Pkg().Path())
		}
		return strV{}
	case "Elem":
		switch u := t.Underlying().(type) {
		case *types.Pointer:
			return in.rtI(u.Elem())
		case *types.Slice:
			return in.rtI(u.Elem())
		case *types.Array:
			return in.rtI(u.Elem())
		case *types.Map:
			return in.rtI(u.Elem())
		case *types.Chan:
			return in.rtI(u.Elem())
		}
		in.goPanicStr("reflect: Elem of invalid type " + reflectTypeString(t))
	case "Key":
		return in.rtI(t.Underlying().(*types.Map).Key())
	case "Len":
		return bv(64, uint64(t.Underlying().(*types.Array).Len()))
	case "NumField":
		st, ok := t.Underlying().(*types.Struct)
		if !ok {
			in.goPanicStr("reflect: NumField of non-struct type " + reflectTypeString(t))
		}
		return bv(64, uint64(st.NumFields()))
	case "Field":
		st, ok := t.Underlying().(*types.Struct)
		if !ok {
			in.goPanicStr("reflect: Field of non-struct type " + reflectTypeString(t))
		}
		i := in.cint(args[0])
		if i < 0 || i >= st.NumFields() {
			in.goPanicStr("reflect: Field index out of bounds")
		}
		return in.structFieldV(st, i, []int{i})
	case "FieldByName":
		st, ok := t.Underlying().(*types.Struct)
		if !ok {
			in.goPanicStr("reflect: FieldByName of non-struct type")
		}
		name := mustStr(args[0], "FieldByName")
		obj, index, _ := types.LookupFieldOrMethod(t, true, nil, name)
		if f, ok := obj.(*types.Var); ok && f.IsField() {
			// locate the declaring struct to build the StructField
			cur := t
			var sf Value
			for k, ix := range index {
				cst := derefStruct(cur)
				if k == len(index)-1 {
					sf = in.structFieldV(cst, ix, index)
				}
				cur = cst.Field(ix).Type()
			}
			return tupleV{sf, tTrue}
		}
		_ = st
		return tupleV{zero(in.prog.ImportedPackage("reflect").Type("StructField").Type()), tFalse}
	case "NumMethod":
		if it, ok := t.Underlying().(*types.Interface); ok {
			return bv(64, uint64(it.NumMethods()))
		}
		n := 0
		ms := in.methodSetOf(t)
		for i := 0; i < ms.Len(); i++ {
			if ms.At(i).Obj().Exported() {
				n++
			}
		}
		return bv(64, uint64(n))
	case "MethodByName":
		name := mustStr(args[0], "MethodByName")
		mt := in.prog.ImportedPackage("reflect").Type("Method").Type()
		sel := in.methodSetOf(t).Lookup(nil, name)
		if sel == nil {
			return tupleV{zero(mt), tFalse}
		}
		fn := in.prog.MethodValue(sel)
		mv := zero(mt).(structV)
		mv[0] = mkStr(name)
		if fn != nil {
			mv[2] = in.rtI(fn.Signature)
		}
		return tupleV{mv, tTrue}
	case "Implements":
		it := rtOf(args[0]).Underlying().(*types.Interface)
		return bl(types.Implements(t, it))
	case "AssignableTo":
		return bl(types.AssignableTo(t, rtOf(args[0])))
	case "ConvertibleTo":
		return bl(types.ConvertibleTo(t, rtOf(args[0])))
	case "Comparable":
		return bl(types.Comparable(t))
	case "Size":
		return bv(64, uint64(sizeOf(t)))
	case "Bits":
		return bv(64, uint64(sizeOf(t)*8))
	case "NumIn":
		return bv(64, uint64(t.Underlying().(*types.Signature).Params().Len()))
	case "NumOut":
		return bv(64, uint64(t.Underlying().(*types.Signature).Results().Len()))
	case "In":
		return in.rtI(t.Underlying().(*types.Signature).Params().At(in.cint(args[0])).Type())
	case "Out":
		return in.rtI(t.Underlying().(*types.Signature).Results().At(in.cint(args[0])).Type())
	}
	unsupported("reflect.Type.%s", m)
	return nil
}

func derefStruct(t types.Type) *types.Struct {
	if p, ok := t.Underlying().(*types.Pointer); ok {
		t = p.Elem()
	}
	return t.Underlying().(*types.Struct)
}

func sizeOf(t types.Type) int64 {
	return types.SizesFor("gc", "amd64").Sizeof(t)
}

func (in *Interp) relem(r rvalV) rvalV {
	switch u := r.t.Underlying().(type) {
	case *types.Pointer:
		p, _ := r.load().(*Value)
		if p == nil {
			return rvalV{}
		}
		return rvalV{t: u.Elem(), addr: p}
	case *types.Interface:
		i, _ := r.load().(iface)
		if i.t == nil {
			return rvalV{}
		}
		return rvalV{t: i.t, v: i.v}
	}
	in.goPanicStr("reflect: call of reflect.Value.Elem on " + kindOf(r.t).String() + " Value")
	return rvalV{}
}

func (in *Interp) rfield(r rvalV, i int) rvalV {
	st, ok := r.t.Underlying().(*types.Struct)
	if !ok {
		in.goPanicStr("reflect: call of reflect.Value.Field on " + kindOf(r.t).String() + " Value")
	}
	if i < 0 || i >= st.NumFields() {
		in.goPanicStr("reflect: Field index out of range")
	}
	ft := st.Field(i).Type()
	if r.addr != nil {
		return rvalV{t: ft, addr: &(*r.addr).(structV)[i]}
	}
	return rvalV{t: ft, v: r.v.(structV)[i]}
}

func (in *Interp) rkindCheck(r rvalV, what string, kinds ...reflect.Kind) {
	k := kindOf(r.t)
	for _, x := range kinds {
		if x == k {
			return
		}
	}
	in.goPanicStr("reflect: call of reflect.Value." + what + " on " + k.String() + " Value")
}

var intKinds = []reflect.Kind{reflect.Int, reflect.Int8, reflect.Int16, reflect.Int32, reflect.Int64}
var uintKinds = []reflect.Kind{reflect.Uint, reflect.Uint8, reflect.Uint16, reflect.Uint32, reflect.Uint64, reflect.Uintptr}

func isKind(t types.Type, kinds []reflect.Kind) bool {
	k := kindOf(t)
	for _, x := range kinds {
		if x == k {
			return true
		}
	}
	return false
}

func (in *Interp) rset(r rvalV, v Value) {
	if r.addr == nil {
		in.goPanicStr("reflect: reflect.Value.Set using unaddressable value")
	}
	storeVal(r.addr, v)
}

func basicWidth(t types.Type) int {
	if b, ok := t.Underlying().(*types.Basic); ok {
		return width(b)
	}
	return 64
}

func (in *Interp) rslice(vs []rvalV) Value {
	a := make([]Value, len(vs))
	for i := range vs {
		a[i] = vs[i]
	}
	return sliceOfVals(a)
}

func reflectSummary(name string) summaryFn {
	if s, ok := reflectSummaries[name]; ok {
		return s
	}
	return nil
}

var reflectSummaries map[string]summaryFn

func init() {
	R := func(f func(in *Interp, a []Value, c *frame) Value) summaryFn {
		return func(in *Interp, _ *ssa.Function, a []Value, c *frame) Value { return f(in, a, c) }
	}
	reflectSummaries = map[string]summaryFn{
		"reflect.ValueOf": R(func(in *Interp, a []Value, _ *frame) Value {
			i, ok := a[0].(iface)
			if !ok || i.t == nil {
				return rvalV{}
			}
			if r, isR := i.v.(rvalV); isR && types.Identical(i.t, in.env.reflectValueT) {
				_ = r // reflect.ValueOf(reflect.Value) is a Value of struct kind; not modelled
				unsupported("reflect.ValueOf(reflect.Value)")
			}
			return rvalV{t: i.t, v: i.v}
		}),
		"reflect.TypeOf": R(func(in *Interp, a []Value, _ *frame) Value {
			i := a[0].(iface)
			return in.rtI(i.t)
		}),
		"reflect.New": R(func(in *Interp, a []Value, _ *frame) Value {
			t := rtOf(a[0])
			return rvalV{t: types.NewPointer(t), v: newCell(zero(t))}
		}),
		"reflect.Zero": R(func(in *Interp, a []Value, _ *frame) Value {
			t := rtOf(a[0])
			return rvalV{t: t, v: zero(t)}
		}),
		"reflect.PointerTo": R(func(in *Interp, a []Value, _ *frame) Value { return in.rtI(types.NewPointer(rtOf(a[0]))) }),
		"reflect.PtrTo":     R(func(in *Interp, a []Value, _ *frame) Value { return in.rtI(types.NewPointer(rtOf(a[0]))) }),
		"reflect.SliceOf":   R(func(in *Interp, a []Value, _ *frame) Value { return in.rtI(types.NewSlice(rtOf(a[0]))) }),
		"reflect.MapOf":     R(func(in *Interp, a []Value, _ *frame) Value { return in.rtI(types.NewMap(rtOf(a[0]), rtOf(a[1]))) }),
		"reflect.StructOf": R(func(in *Interp, a []Value, _ *frame) Value {
			var vars []*types.Var
			var tags []string
			for _, e := range a[0].(sliceV).elems() {
				sf := e.(structV)
				name := mustStr(sf[0], "StructOf field name")
				ft := rtOf(sf[2])
				vars = append(vars, types.NewField(0, nil, name, ft, false))
				tags = append(tags, mustStr(sf[3], "StructOf tag"))
			}
			return in.rtI(types.NewStruct(vars, tags))
		}),
		"reflect.Indirect": R(func(in *Interp, a []Value, _ *frame) Value {
			r := asR(a[0])
			if r.valid() {
				if _, ok := r.t.Underlying().(*types.Pointer); ok {
					return in.relem(r)
				}
			}
			return r
		}),
		"reflect.MakeSlice": R(func(in *Interp, a []Value, _ *frame) Value {
			t := rtOf(a[0])
			n, c := in.cint(a[1]), in.cint(a[2])
			if c < n {
				in.goPanicStr("reflect.MakeSlice: len > cap")
			}
			et := t.Underlying().(*types.Slice).Elem()
			arr := make([]Value, c)
			for i := range arr {
				arr[i] = zero(et)
			}
			return rvalV{t: t, v: sliceV{a: &arr, n: n, capacity: c}}
		}),
		"reflect.MakeMap": R(func(in *Interp, a []Value, _ *frame) Value {
			return rvalV{t: rtOf(a[0]), v: &mapV{}}
		}),
		"reflect.MakeMapWithSize": R(func(in *Interp, a []Value, _ *frame) Value {
			return rvalV{t: rtOf(a[0]), v: &mapV{}}
		}),
		"reflect.Append": R(func(in *Interp, a []Value, _ *frame) Value {
			r := asR(a[0])
			in.rkindCheck(r, "Append", reflect.Slice)
			s, _ := r.load().(sliceV)
			var add []Value
			et := r.t.Underlying().(*types.Slice).Elem()
			for _, e := range a[1].(sliceV).elems() {
				add = append(add, in.rvalAs(asR(e), et))
			}
			return rvalV{t: r.t, v: appendVals(s, add)}
		}),
		"reflect.AppendSlice": R(func(in *Interp, a []Value, _ *frame) Value {
			r, t := asR(a[0]), asR(a[1])
			s, _ := r.load().(sliceV)
			ts, _ := t.load().(sliceV)
			var add []Value
			for _, e := range ts.elems() {
				add = append(add, copyVal(e))
			}
			return rvalV{t: r.t, v: appendVals(s, add)}
		}),
		"reflect.Copy": R(func(in *Interp, a []Value, _ *frame) Value {
			d, s := asR(a[0]), asR(a[1])
			var dst []*Value
			switch dv := d.load().(type) {
			case sliceV:
				for i := 0; i < dv.n; i++ {
					dst = append(dst, dv.at(i))
				}
			case arrV:
				if d.addr == nil {
					in.goPanicStr("reflect.Copy: unaddressable array")
				}
				arr := (*d.addr).(arrV)
				for i := range arr {
					dst = append(dst, &arr[i])
				}
			}
			var src []Value
			switch sv := s.load().(type) {
			case sliceV:
				src = append(src, sv.elems()...)
			case arrV:
				src = append(src, sv...)
			}
			n := len(dst)
			if len(src) < n {
				n = len(src)
			}
			for i := 0; i < n; i++ {
				storeVal(dst[i], copyVal(src[i]))
			}
			return bv(64, uint64(n))
		}),
		"reflect.DeepEqual": R(func(in *Interp, a []Value, _ *frame) Value { return in.sameValue(a[0], a[1]) }),
		"(reflect.StructTag).Get": R(func(in *Interp, a []Value, _ *frame) Value {
			return mkStr(reflect.StructTag(mustStr(a[0], "StructTag.Get")).Get(mustStr(a[1], "StructTag.Get")))
		}),
		"(reflect.StructTag).Lookup": R(func(in *Interp, a []Value, _ *frame) Value {
			s, ok := reflect.StructTag(mustStr(a[0], "StructTag.Lookup")).Lookup(mustStr(a[1], "StructTag.Lookup"))
			return tupleV{mkStr(s), bl(ok)}
		}),
		"(reflect.Kind).String": R(func(in *Interp, a []Value, _ *frame) Value {
			return mkStr(reflect.Kind(in.cint(a[0])).String())
		}),
		// ---- Value methods
		"(reflect.Value).IsValid": R(func(in *Interp, a []Value, _ *frame) Value { return bl(asR(a[0]).valid()) }),
		"(reflect.Value).Kind":    R(func(in *Interp, a []Value, _ *frame) Value { return bv(64, uint64(kindOf(asR(a[0]).t))) }),
		"(reflect.Value).Type": R(func(in *Interp, a []Value, _ *frame) Value {
			r := asR(a[0])
			if !r.valid() {
				in.goPanicStr("reflect: call of reflect.Value.Type on zero Value")
			}
			return in.rtI(r.t)
		}),
		"(reflect.Value).CanAddr":      R(func(in *Interp, a []Value, _ *frame) Value { return bl(asR(a[0]).addr != nil) }),
		"(reflect.Value).CanSet":       R(func(in *Interp, a []Value, _ *frame) Value { return bl(asR(a[0]).addr != nil) }),
		"(reflect.Value).CanInterface": R(func(in *Interp, a []Value, _ *frame) Value { return bl(asR(a[0]).valid()) }),
		"(reflect.Value).CanInt":       R(func(in *Interp, a []Value, _ *frame) Value { return bl(isKind(asR(a[0]).t, intKinds)) }),
		"(reflect.Value).CanUint":      R(func(in *Interp, a []Value, _ *frame) Value { return bl(isKind(asR(a[0]).t, uintKinds)) }),
		"(reflect.Value).CanFloat": R(func(in *Interp, a []Value, _ *frame) Value {
			return bl(isKind(asR(a[0]).t, []reflect.Kind{reflect.Float32, reflect.Float64}))
		}),
		"(reflect.Value).Addr": R(func(in *Interp, a []Value, _ *frame) Value {
			r := asR(a[0])
			if r.addr == nil {
				in.goPanicStr("reflect.Value.Addr of unaddressable value")
			}
			return rvalV{t: types.NewPointer(r.t), v: r.addr}
		}),
		"(reflect.Value).Elem": R(func(in *Interp, a []Value, _ *frame) Value {
			r := asR(a[0])
			if !r.valid() {
				in.goPanicStr("reflect: call of reflect.Value.Elem on zero Value")
			}
			return in.relem(r)
		}),
		"(reflect.Value).Interface": R(func(in *Interp, a []Value, _ *frame) Value {
			r := asR(a[0])
			if !r.valid() {
				in.goPanicStr("reflect: call of reflect.Value.Interface on zero Value")
			}
			if _, isI := r.t.Underlying().(*types.Interface); isI {
				return r.load()
			}
			return iface{t: r.t, v: copyVal(r.load())}
		}),
		"(reflect.Value).IsNil": R(func(in *Interp, a []Value, _ *frame) Value {
			r := asR(a[0])
			if !r.valid() {
				in.goPanicStr("reflect: call of reflect.Value.IsNil on zero Value")
			}
			switch v := r.load().(type) {
			case *Value:
				return bl(v == nil)
			case *mapV:
				return bl(v == nil)
			case sliceV:
				return bl(v.a == nil)
			case iface:
				return bl(v.t == nil)
			case *chanV:
				return bl(v == nil)
			case nilV:
				return tTrue
			case closure, *ssa.Function, boundM:
				return tFalse
			}
			in.goPanicStr("reflect: call of reflect.Value.IsNil on " + kindOf(r.t).String() + " Value")
			return nil
		}),
		"(reflect.Value).IsZero": R(func(in *Interp, a []Value, _ *frame) Value {
			r := asR(a[0])
			if !r.valid() {
				in.goPanicStr("reflect: call of reflect.Value.IsZero on zero Value")
			}
			return isZeroT(r.load())
		}),
		"(reflect.Value).Len": R(func(in *Interp, a []Value, _ *frame) Value {
			r := asR(a[0])
			switch v := r.load().(type) {
			case sliceV:
				return bv(64, uint64(v.n))
			case strV:
				return bv(64, uint64(len(v)))
			case arrV:
				return bv(64, uint64(len(v)))
			case *mapV:
				if v == nil {
					return bv(64, 0)
				}
				return bv(64, uint64(len(v.keys)))
			case *Value:
				if at, ok := r.t.Underlying().(*types.Pointer); ok {
					if arr, ok := at.Elem().Underlying().(*types.Array); ok {
						return bv(64, uint64(arr.Len()))
					}
				}
			}
			in.goPanicStr("reflect: call of reflect.Value.Len on " + kindOf(r.t).String() + " Value")
			return nil
		}),
		"(reflect.Value).Cap": R(func(in *Interp, a []Value, _ *frame) Value {
			r := asR(a[0])
			switch v := r.load().(type) {
			case sliceV:
				return bv(64, uint64(v.capacity))
			case arrV:
				return bv(64, uint64(len(v)))
			}
			in.goPanicStr("reflect: call of reflect.Value.Cap on " + kindOf(r.t).String() + " Value")
			return nil
		}),
		"(reflect.Value).Index": R(func(in *Interp, a []Value, _ *frame) Value {
			r := asR(a[0])
			idx := a[1].(*Term)
			switch u := r.t.Underlying().(type) {
			case *types.Slice:
				s := r.load().(sliceV)
				i, ok := in.concretize(idx, 0, s.n)
				if !ok {
					in.goPanicStr("reflect: slice index out of range")
				}
				return rvalV{t: u.Elem(), addr: s.at(i)}
			case *types.Array:
				if r.addr != nil {
					arr := (*r.addr).(arrV)
					i, ok := in.concretize(idx, 0, len(arr))
					if !ok {
						in.goPanicStr("reflect: array index out of range")
					}
					return rvalV{t: u.Elem(), addr: &arr[i]}
				}
				arr := r.v.(arrV)
				i, ok := in.concretize(idx, 0, len(arr))
				if !ok {
					in.goPanicStr("reflect: array index out of range")
				}
				return rvalV{t: u.Elem(), v: arr[i]}
			case *types.Basic:
				if s, ok := r.load().(strV); ok {
					i, ok := in.concretize(idx, 0, len(s))
					if !ok {
						in.goPanicStr("reflect: string index out of range")
					}
					return rvalV{t: types.Typ[types.Uint8], v: s[i]}
				}
			}
			in.goPanicStr("reflect: call of reflect.Value.Index on " + kindOf(r.t).String() + " Value")
			return nil
		}),
		"(reflect.Value).Slice": R(func(in *Interp, a []Value, _ *frame) Value {
			r := asR(a[0])
			lo, hi := in.cint(a[1]), in.cint(a[2])
			switch v := r.load().(type) {
			case sliceV:
				if lo < 0 || lo > hi || hi > v.capacity {
					in.goPanicStr("reflect.Value.Slice: slice index out of bounds")
				}
				return rvalV{t: r.t, v: sliceV{a: v.a, off: v.off + lo, n: hi - lo, capacity: v.capacity - lo}}
			case strV:
				return rvalV{t: r.t, v: v[lo:hi]}
			}
			unsupported("reflect.Value.Slice on %s", r.t)
			return nil
		}),
		"(reflect.Value).NumField": R(func(in *Interp, a []Value, _ *frame) Value {
			r := asR(a[0])
			in.rkindCheck(r, "NumField", reflect.Struct)
			return bv(64, uint64(r.t.Underlying().(*types.Struct).NumFields()))
		}),
		"(reflect.Value).Field": R(func(in *Interp, a []Value, _ *frame) Value {
			return in.rfield(asR(a[0]), in.cint(a[1]))
		}),
		"(reflect.Value).FieldByIndex": R(func(in *Interp, a []Value, _ *frame) Value {
			r := asR(a[0])
			for k, ix := range a[1].(sliceV).elems() {
				if k > 0 {
					if _, isP := r.t.Underlying().(*types.Pointer); isP {
						if p, _ := r.load().(*Value); p == nil {
							in.goPanicStr("reflect: indirection through nil pointer to embedded struct")
						}
						r = in.relem(r)
					}
				}
				r = in.rfield(r, in.cint(ix))
			}
			return r
		}),
		"(reflect.Value).FieldByName": R(func(in *Interp, a []Value, _ *frame) Value {
			r := asR(a[0])
			in.rkindCheck(r, "FieldByName", reflect.Struct)
			name := mustStr(a[1], "FieldByName")
			obj, index, _ := types.LookupFieldOrMethod(r.t, true, nil, name)
			if f, ok := obj.(*types.Var); !ok || !f.IsField() {
				return rvalV{}
			}
			for k, ix := range index {
				if k > 0 {
					if _, isP := r.t.Underlying().(*types.Pointer); isP {
						if p, _ := r.load().(*Value); p == nil {
							return rvalV{}
						}
						r = in.relem(r)
					}
				}
				r = in.rfield(r, ix)
			}
			return r
		}),
		"(reflect.Value).Set": R(func(in *Interp, a []Value, _ *frame) Value {
			r, x := asR(a[0]), asR(a[1])
			if !x.valid() {
				in.goPanicStr("reflect: call of reflect.Value.Set with zero Value")
			}
			if !types.AssignableTo(x.t, r.t) {
				in.goPanicStr("reflect.Set: value of type " + reflectTypeString(x.t) + " is not assignable to type " + reflectTypeString(r.t))
			}
			in.rset(r, in.rvalAs(x, r.t))
			return nil
		}),
		"(reflect.Value).SetInt": R(func(in *Interp, a []Value, _ *frame) Value {
			r := asR(a[0])
			in.rkindCheck(r, "SetInt", intKinds...)
			in.rset(r, resize(a[1].(*Term), basicWidth(r.t), true))
			return nil
		}),
		"(reflect.Value).SetUint": R(func(in *Interp, a []Value, _ *frame) Value {
			r := asR(a[0])
			in.rkindCheck(r, "SetUint", uintKinds...)
			in.rset(r, resize(a[1].(*Term), basicWidth(r.t), false))
			return nil
		}),
		"(reflect.Value).SetBool": R(func(in *Interp, a []Value, _ *frame) Value {
			r := asR(a[0])
			in.rkindCheck(r, "SetBool", reflect.Bool)
			in.rset(r, a[1])
			return nil
		}),
		"(reflect.Value).SetString": R(func(in *Interp, a []Value, _ *frame) Value {
			r := asR(a[0])
			in.rkindCheck(r, "SetString", reflect.String)
			in.rset(r, a[1])
			return nil
		}),
		"(reflect.Value).SetFloat": R(func(in *Interp, a []Value, _ *frame) Value {
			r := asR(a[0])
			in.rkindCheck(r, "SetFloat", reflect.Float32, reflect.Float64)
			f := a[1].(fltV)
			if kindOf(r.t) == reflect.Float32 {
				f = fltV(float32(f))
			}
			in.rset(r, f)
			return nil
		}),
		"(reflect.Value).SetBytes": R(func(in *Interp, a []Value, _ *frame) Value {
			in.rset(asR(a[0]), a[1])
			return nil
		}),
		"(reflect.Value).SetLen": R(func(in *Interp, a []Value, _ *frame) Value {
			r := asR(a[0])
			s := r.load().(sliceV)
			n := in.cint(a[1])
			if n < 0 || n > s.capacity {
				in.goPanicStr("reflect: slice length out of range in SetLen")
			}
			s.n = n
			in.rset(r, s)
			return nil
		}),
		"(reflect.Value).SetZero": R(func(in *Interp, a []Value, _ *frame) Value {
			r := asR(a[0])
			in.rset(r, zero(r.t))
			return nil
		}),
		"(reflect.Value).Int": R(func(in *Interp, a []Value, _ *frame) Value {
			r := asR(a[0])
			in.rkindCheck(r, "Int", intKinds...)
			return resize(r.load().(*Term), 64, true)
		}),
		"(reflect.Value).Uint": R(func(in *Interp, a []Value, _ *frame) Value {
			r := asR(a[0])
			in.rkindCheck(r, "Uint", uintKinds...)
			return resize(r.load().(*Term), 64, false)
		}),
		"(reflect.Value).Bool": R(func(in *Interp, a []Value, _ *frame) Value {
			r := asR(a[0])
			in.rkindCheck(r, "Bool", reflect.Bool)
			return r.load()
		}),
		"(reflect.Value).Float": R(func(in *Interp, a []Value, _ *frame) Value {
			r := asR(a[0])
			in.rkindCheck(r, "Float", reflect.Float32, reflect.Float64)
			return r.load()
		}),
		"(reflect.Value).String": R(func(in *Interp, a []Value, _ *frame) Value {
			r := asR(a[0])
			if !r.valid() {
				return mkStr("<invalid Value>")
			}
			if kindOf(r.t) == reflect.String {
				return r.load()
			}
			return mkStr("<" + reflectTypeString(r.t) + " Value>")
		}),
		"(reflect.Value).Bytes": R(func(in *Interp, a []Value, _ *frame) Value {
			return asR(a[0]).load()
		}),
		"(reflect.Value).Pointer": R(func(in *Interp, a []Value, _ *frame) Value {
			r := asR(a[0])
			if p, ok := r.load().(*Value); ok {
				if p == nil {
					return bv(64, 0)
				}
				return bv(64, uint64(0xc000000000+in.ptrID(p)*64))
			}
			unsupported("reflect.Value.Pointer of %s", r.t)
			return nil
		}),
		"(reflect.Value).Convert": R(func(in *Interp, a []Value, _ *frame) Value {
			r := asR(a[0])
			t := rtOf(a[1])
			if !types.ConvertibleTo(r.t, t) {
				in.goPanicStr("reflect.Value.Convert: value of type " + reflectTypeString(r.t) + " cannot be converted to type " + reflectTypeString(t))
			}
			if _, isI := t.Underlying().(*types.Interface); isI {
				if _, srcI := r.t.Underlying().(*types.Interface); srcI {
					return rvalV{t: t, v: r.load()}
				}
				return rvalV{t: t, v: iface{t: r.t, v: copyVal(r.load())}}
			}
			if types.Identical(r.t.Underlying(), t.Underlying()) {
				return rvalV{t: t, v: copyVal(r.load())}
			}
			return rvalV{t: t, v: in.convert(r.load(), r.t, t)}
		}),
		"(reflect.Value).MethodByName": R(func(in *Interp, a []Value, _ *frame) Value {
			r := asR(a[0])
			if !r.valid() {
				in.goPanicStr("reflect: call of reflect.Value.MethodByName on zero Value")
			}
			name := mustStr(a[1], "MethodByName")
			if !ssaExported(name) {
				return rvalV{}
			}
			sel := in.methodSetOf(r.t).Lookup(nil, name)
			if sel == nil {
				return rvalV{}
			}
			recv := r.load()
			if it, isI := r.t.Underlying().(*types.Interface); isI {
				_ = it
				i := recv.(iface)
				if i.t == nil {
					return rvalV{}
				}
				fn := in.lookupMethod(i.t, nil, name)
				sig := fn.Signature
				return rvalV{t: types.NewSignatureType(nil, nil, nil, sig.Params(), sig.Results(), sig.Variadic()), v: boundM{fn: fn, recv: i.v}}
			}
			fn := in.prog.MethodValue(sel)
			sig := fn.Signature
			return rvalV{t: types.NewSignatureType(nil, nil, nil, sig.Params(), sig.Results(), sig.Variadic()), v: boundM{fn: fn, recv: copyVal(recv)}}
		}),
		"(reflect.Value).NumMethod": R(func(in *Interp, a []Value, _ *frame) Value {
			r := asR(a[0])
			return in.rtypeMethod(rtype{r.t}, "NumMethod", nil)
		}),
		"(reflect.Value).Call": R(func(in *Interp, a []Value, c *frame) Value {
			r := asR(a[0])
			sig, ok := r.t.Underlying().(*types.Signature)
			if !ok {
				in.goPanicStr("reflect: call of reflect.Value.Call on " + kindOf(r.t).String() + " Value")
			}
			var args []Value
			for i, e := range a[1].(sliceV).elems() {
				var pt types.Type
				if i < sig.Params().Len() {
					pt = sig.Params().At(i).Type()
				}
				args = append(args, in.rvalAs(asR(e), pt))
			}
			res := in.callFunc(r.load(), args, c)
			var outs []rvalV
			switch sig.Results().Len() {
			case 0:
			case 1:
				outs = append(outs, in.wrapResult(res, sig.Results().At(0).Type()))
			default:
				for i, x := range res.(tupleV) {
					outs = append(outs, in.wrapResult(x, sig.Results().At(i).Type()))
				}
			}
			return in.rslice(outs)
		}),
		"(reflect.Value).MapIndex": R(func(in *Interp, a []Value, _ *frame) Value {
			r := asR(a[0])
			mt := r.t.Underlying().(*types.Map)
			m, _ := r.load().(*mapV)
			k := in.rvalAs(asR(a[1]), mt.Key())
			in.hbMapRead(m, "reflect.Value.MapIndex")
			v, ok := in.mapGet(m, k)
			if !ok {
				return rvalV{}
			}
			return rvalV{t: mt.Elem(), v: copyVal(v)}
		}),
		"(reflect.Value).SetMapIndex": R(func(in *Interp, a []Value, _ *frame) Value {
			r := asR(a[0])
			mt := r.t.Underlying().(*types.Map)
			m, _ := r.load().(*mapV)
			if m == nil {
				in.goPanicStr("assignment to entry in nil map")
			}
			k := in.rvalAs(asR(a[1]), mt.Key())
			in.hbMapWrite(m, "reflect.Value.SetMapIndex")
			ev := asR(a[2])
			if !ev.valid() {
				for i := range m.keys {
					if in.keyEq(m.keys[i], k) {
						m.keys = append(append([]Value{}, m.keys[:i]...), m.keys[i+1:]...)
						m.vals = append(append([]Value{}, m.vals[:i]...), m.vals[i+1:]...)
						break
					}
				}
				return nil
			}
			in.mapSet(m, k, in.rvalAs(ev, mt.Elem()))
			return nil
		}),
		"(reflect.Value).MapKeys": R(func(in *Interp, a []Value, _ *frame) Value {
			r := asR(a[0])
			mt := r.t.Underlying().(*types.Map)
			m, _ := r.load().(*mapV)
			var ks []rvalV
			in.hbMapRead(m, "reflect.Value.MapKeys")
			if m != nil {
				for _, k := range m.keys {
					ks = append(ks, rvalV{t: mt.Key(), v: k})
				}
			}
			return in.rslice(ks)
		}),
		"(reflect.Value).UnsafePointer": R(func(in *Interp, a []Value, _ *frame) Value {
			unsupported("reflect.Value.UnsafePointer")
			return nil
		}),
	}
}

func ssaExported(name string) bool {
	return len(name) > 0 && name[0] >= 'A' && name[0] <= 'Z'
}

// rvalAs returns r's value as a value of static type t (wrapping into an
// interface when t is an interface type and r is not).
func (in *Interp) rvalAs(r rvalV, t types.Type) Value {
	if !r.valid() {
		if t != nil {
			return zero(t)
		}
		return iface{}
	}
	v := copyVal(r.load())
	if t != nil {
		if _, isI := t.Underlying().(*types.Interface); isI {
			if _, srcI := r.t.Underlying().(*types.Interface); !srcI {
				return iface{t: r.t, v: v}
			}
		}
	}
	return v
}

func (in *Interp) wrapResult(v Value, t types.Type) rvalV {
	return rvalV{t: t, v: v}
}

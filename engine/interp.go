package main

import (
	"fmt"
	"go/token"
	"go/types"
	"math"
	"strings"

	"golang.org/x/tools/go/ssa"
)

// Interp is one world: the state of one path of one harness instance.
type Interp struct {
	prog     *ssa.Program
	e        *Explorer
	env      *Env
	globals  map[*ssa.Global]*Value
	syncMaps map[*Value]*mapV
	onceDone map[*Value]bool
	funcs    map[*ssa.Function]int
	nondetN  map[string]int
	nondets  []nondetRec
	observes []observeRec
	reached  map[string]bool
	asciiOK  map[*Term]bool
	depth    int
	steps    int
	cur      *thread
	threads  []*thread
	natives  map[string]Value
	ptrIDs   map[*Value]int
	timeTick int
	ss       *schedState
	hb       *hbState // happens-before tracking of map accesses (verifrt.MapRaces); nil = off
	violation *Violation
	tags     []string
	nAsserts int
}

type nondetRec struct {
	name string
	t    *Term
	kind string
}
type observeRec struct {
	label string
	val   Value
}

// fnInfo numbers the SSA values of a function (shared, read-only).
type fnInfo struct {
	index map[ssa.Value]int
	n     int
}

func (env *Env) info(fn *ssa.Function) *fnInfo {
	if v, ok := env.fnInfos.Load(fn); ok {
		return v.(*fnInfo)
	}
	fi := &fnInfo{index: map[ssa.Value]int{}}
	for _, p := range fn.Params {
		fi.index[p] = fi.n
		fi.n++
	}
	for _, b := range fn.Blocks {
		for _, ins := range b.Instrs {
			if v, ok := ins.(ssa.Value); ok {
				fi.index[v] = fi.n
				fi.n++
			}
		}
	}
	if fn.Recover != nil {
		for _, ins := range fn.Recover.Instrs {
			if v, ok := ins.(ssa.Value); ok {
				if _, seen := fi.index[v]; !seen {
					fi.index[v] = fi.n
					fi.n++
				}
			}
		}
	}
	env.fnInfos.Store(fn, fi)
	return fi
}

type localsT struct {
	fi   *fnInfo
	vals []Value
	set  []bool
}

func newLocals(fi *fnInfo) *localsT {
	return &localsT{fi: fi, vals: make([]Value, fi.n), set: make([]bool, fi.n)}
}

type frame struct {
	in        *Interp
	fn        *ssa.Function
	locals    *localsT
	env       []Value
	defers    []*deferred
	caller    *frame
	panicking *goPanic
	result    Value
	visits    map[*ssa.BasicBlock]int
}

type deferred struct {
	cc   *ssa.CallCommon
	fv   Value
	recv Value
	args []Value
}

func (in *Interp) global(g *ssa.Global) *Value {
	if p, ok := in.globals[g]; ok {
		return p
	}
	p := newCell(zero(g.Type().(*types.Pointer).Elem()))
	in.globals[g] = p
	return p
}

func (fr *frame) setLocal(v ssa.Value, val Value) {
	i, ok := fr.locals.fi.index[v]
	if !ok {
		panic(fmt.Sprintf("unnumbered value %s in %s", v.Name(), fr.fn))
	}
	fr.locals.vals[i] = val
	fr.locals.set[i] = true
}

func (fr *frame) get(v ssa.Value) Value {
	switch x := v.(type) {
	case *ssa.Const:
		if c, ok := fr.in.env.constCache.Load(x); ok {
			return c
		}
		c := constVal(x)
		switch c.(type) {
		case *Term, strV, fltV:
			fr.in.env.constCache.Store(x, c) // immutable values only
		}
		return c
	case *ssa.Function:
		return x
	case *ssa.Global:
		return fr.in.global(x)
	case *ssa.FreeVar:
		for i, fv := range fr.fn.FreeVars {
			if fv == x {
				return fr.env[i]
			}
		}
	case *ssa.Builtin:
		return x
	}
	i, ok := fr.locals.fi.index[v]
	if !ok || !fr.locals.set[i] {
		panic(fmt.Sprintf("no value for %s in %s", v.Name(), fr.fn))
	}
	return fr.locals.vals[i]
}

func (in *Interp) cint(v Value) int {
	t, ok := v.(*Term)
	if !ok {
		unsupported("non-integer %T where integer needed", v)
	}
	if !t.isConst {
		panic(pathAbort{"unsupported", "symbolic int where concrete needed: " + t.String()})
	}
	return int(sext(t.c, t.w))
}

// concretize case-splits a symbolic integer over [lo,hi).
func (in *Interp) concretize(t *Term, lo, hi int) (int, bool) {
	if t.isConst {
		v := int(sext(t.c, t.w))
		return v, v >= lo && v < hi
	}
	for i := lo; i < hi; i++ {
		if in.e.branch(mkEq(t, bv(t.w, uint64(i)))) {
			return i, true
		}
	}
	return 0, false
}

func (in *Interp) goPanicStr(msg string) {
	rt := in.env.runtimeErrorT
	panic(&goPanic{val: iface{t: rt, v: mkStr(msg)}, where: msg})
}

const maxDepth = 400
const maxSteps = 40_000_000
const maxBlockVisits = 200_000

func (in *Interp) call(fn *ssa.Function, env []Value, args []Value, caller *frame) (result Value) {
	in.funcs[fn]++
	if r, ok := in.summary(fn, args, caller); ok {
		return r
	}
	if fn.Blocks == nil {
		unsupported("call of body-less function %s", fn)
	}
	if !in.env.interpretable(fn) {
		return opaque{fn.String()}
	}
	in.depth++
	if in.depth > maxDepth {
		panic(pathAbort{"overflow", "call depth exceeded in " + fn.String()})
	}
	defer func() { in.depth-- }()
	fr := &frame{in: in, fn: fn, locals: newLocals(in.env.info(fn)), env: env, caller: caller}
	for i, p := range fn.Params {
		fr.setLocal(p, args[i])
	}
	done := false
	func() {
		defer func() {
			if done {
				return
			}
			r := recover()
			gp, ok := r.(*goPanic)
			if !ok {
				panic(r)
			}
			fr.panicking = gp
		}()
		result = fr.run(fn.Blocks[0])
		done = true
	}()
	if done {
		return result
	}
	// panicking: run deferred calls; one of them may recover.
	fr.runDefers()
	if fr.panicking != nil {
		panic(fr.panicking)
	}
	// recovered
	if fn.Recover != nil {
		return fr.run(fn.Recover)
	}
	return zeroResults(fn.Signature.Results())
}

func zeroResults(res *types.Tuple) Value {
	switch res.Len() {
	case 0:
		return nil
	case 1:
		return zero(res.At(0).Type())
	}
	return zero(res)
}

func (fr *frame) runDefers() {
	for len(fr.defers) > 0 {
		d := fr.defers[len(fr.defers)-1]
		fr.defers = fr.defers[:len(fr.defers)-1]
		func() {
			defer func() {
				if r := recover(); r != nil {
					gp, ok := r.(*goPanic)
					if !ok {
						panic(r)
					}
					fr.panicking = gp // a new panic replaces the current one
				}
			}()
			fr.callValue(d.cc, d.fv, d.recv, d.args)
		}()
	}
}

func (fr *frame) run(b *ssa.BasicBlock) Value {
	in := fr.in
	var prev *ssa.BasicBlock
	for {
		var next *ssa.BasicBlock
		if len(b.Preds) > 1 {
			if fr.visits == nil {
				fr.visits = map[*ssa.BasicBlock]int{}
			}
			fr.visits[b]++
			if fr.visits[b] > maxBlockVisits {
				panic(pathAbort{"unwind", "loop bound exceeded in " + fr.fn.String()})
			}
		}
		// phis read their operands simultaneously
		nphi := 0
		for _, ins := range b.Instrs {
			if _, ok := ins.(*ssa.Phi); ok {
				nphi++
			} else {
				break
			}
		}
		if nphi > 0 {
			vals := make([]Value, nphi)
			for k := 0; k < nphi; k++ {
				x := b.Instrs[k].(*ssa.Phi)
				for i, p := range b.Preds {
					if p == prev {
						vals[k] = fr.get(x.Edges[i])
						break
					}
				}
			}
			for k := 0; k < nphi; k++ {
				fr.setLocal(b.Instrs[k].(*ssa.Phi), vals[k])
			}
		}
		for _, ins := range b.Instrs[nphi:] {
			in.steps++
			if in.steps > maxSteps {
				panic(pathAbort{"unwind", "step budget exceeded"})
			}
			switch x := ins.(type) {
			case *ssa.Jump:
				next = b.Succs[0]
			case *ssa.If:
				c, ok := fr.get(x.Cond).(*Term)
				if !ok {
					unsupported("non-boolean condition %T in %s", fr.get(x.Cond), fr.fn)
				}
				in.e.site = fr.fn.String()
				if in.e.branch(c) {
					next = b.Succs[0]
				} else {
					next = b.Succs[1]
				}
			case *ssa.Defer:
				cc := &x.Call
				d := &deferred{cc: cc}
				if cc.IsInvoke() {
					d.recv = fr.get(cc.Value)
				} else if _, isB := cc.Value.(*ssa.Builtin); !isB {
					d.fv = fr.get(cc.Value)
				}
				for _, a := range cc.Args {
					d.args = append(d.args, fr.get(a))
				}
				fr.defers = append(fr.defers, d)
			case *ssa.RunDefers:
				fr.runDefers()
				if fr.panicking != nil {
					gp := fr.panicking
					fr.panicking = nil
					panic(gp)
				}
			case *ssa.Return:
				switch len(x.Results) {
				case 0:
					return nil
				case 1:
					return fr.get(x.Results[0])
				}
				t := make(tupleV, len(x.Results))
				for i, r := range x.Results {
					t[i] = fr.get(r)
				}
				return t
			case *ssa.Panic:
				v := fr.get(x.X)
				panic(&goPanic{val: v, where: fr.fn.String()})
			case *ssa.Go:
				fr.doGo(&x.Call)
			default:
				fr.exec(ins)
			}
		}
		prev, b = b, next
	}
}

func (fr *frame) deref(v Value, what string) *Value {
	p, ok := v.(*Value)
	if !ok {
		if _, isOp := v.(opaque); isOp {
			unsupported("dereference of opaque value in %s (%s)", fr.fn, v.(opaque).what)
		}
		panic(fmt.Sprintf("%s of %T in %s", what, v, fr.fn))
	}
	if p == nil {
		fr.in.goPanicStr("invalid memory address or nil pointer dereference")
	}
	return p
}

func (fr *frame) exec(ins ssa.Instruction) {
	in := fr.in
	switch x := ins.(type) {
	case *ssa.Alloc:
		fr.setLocal(x, newCell(zero(x.Type().(*types.Pointer).Elem())))
	case *ssa.Store:
		p := fr.deref(fr.get(x.Addr), "store")
		storeVal(p, fr.get(x.Val))
	case *ssa.UnOp:
		v := fr.get(x.X)
		switch x.Op {
		case token.MUL:
			p := fr.deref(v, "load")
			fr.setLocal(x, copyVal(*p))
		case token.NOT:
			fr.setLocal(x, mk("not", 0, v.(*Term)))
		case token.ARROW:
			fr.setLocal(x, fr.chanRecv(v, x.CommaOk, x.Type()))
		case token.SUB:
			if f, ok := v.(fltV); ok {
				fr.setLocal(x, -f)
			} else {
				t := v.(*Term)
				fr.setLocal(x, mk("bvsub", t.w, bv(t.w, 0), t))
			}
		case token.XOR:
			t := v.(*Term)
			fr.setLocal(x, mk("bvnot", t.w, t))
		default:
			panic("unop " + x.Op.String())
		}
	case *ssa.BinOp:
		fr.setLocal(x, in.binop(x.Op, fr.get(x.X), fr.get(x.Y), x.X.Type(), x.Y.Type()))
	case *ssa.FieldAddr:
		p := fr.deref(fr.get(x.X), "fieldaddr")
		s, ok := (*p).(structV)
		if !ok {
			unsupported("fieldaddr on %T in %s", *p, fr.fn)
		}
		fr.setLocal(x, &s[x.Field])
	case *ssa.Field:
		s, ok := fr.get(x.X).(structV)
		if !ok {
			unsupported("field of %T in %s", fr.get(x.X), fr.fn)
		}
		fr.setLocal(x, s[x.Field])
	case *ssa.IndexAddr:
		base := fr.get(x.X)
		idx := fr.get(x.Index).(*Term)
		switch bb := base.(type) {
		case sliceV:
			i, ok := in.concretize(idx, 0, bb.n)
			if !ok {
				in.goPanicStr("index out of range")
			}
			fr.setLocal(x, bb.at(i))
		case *Value:
			if bb == nil {
				in.goPanicStr("invalid memory address or nil pointer dereference")
			}
			a := (*bb).(arrV)
			i, ok := in.concretize(idx, 0, len(a))
			if !ok {
				in.goPanicStr("index out of range")
			}
			fr.setLocal(x, &a[i])
		default:
			unsupported("indexaddr %T in %s", base, fr.fn)
		}
	case *ssa.Index:
		idx := fr.get(x.Index).(*Term)
		switch a := fr.get(x.X).(type) {
		case arrV:
			i, ok := in.concretize(idx, 0, len(a))
			if !ok {
				in.goPanicStr("index out of range")
			}
			fr.setLocal(x, a[i])
		case strV:
			noAtom(a, "indexing")
			i, ok := in.concretize(idx, 0, len(a))
			if !ok {
				in.goPanicStr("index out of range")
			}
			fr.setLocal(x, a[i])
		default:
			unsupported("index %T", a)
		}
	case *ssa.Convert:
		fr.setLocal(x, in.convert(fr.get(x.X), x.X.Type(), x.Type()))
	case *ssa.ChangeInterface:
		fr.setLocal(x, fr.get(x.X))
	case *ssa.ChangeType:
		fr.setLocal(x, fr.get(x.X))
	case *ssa.SliceToArrayPointer:
		unsupported("SliceToArrayPointer")
	case *ssa.MakeInterface:
		fr.setLocal(x, iface{t: x.X.Type(), v: fr.get(x.X)})
	case *ssa.MakeSlice:
		n := in.cint(fr.get(x.Len))
		c := in.cint(fr.get(x.Cap))
		if c < n {
			c = n
		}
		a := make([]Value, c)
		et := x.Type().Underlying().(*types.Slice).Elem()
		for i := range a {
			a[i] = zero(et)
		}
		fr.setLocal(x, sliceV{a: &a, n: n, capacity: c})
	case *ssa.Slice:
		fr.setLocal(x, fr.sliceOp(x))
	case *ssa.TypeAssert:
		fr.setLocal(x, fr.typeAssert(x))
	case *ssa.Extract:
		tv := fr.get(x.Tuple)
		if o, ok := tv.(opaque); ok {
			fr.setLocal(x, o)
		} else {
			fr.setLocal(x, tv.(tupleV)[x.Index])
		}
	case *ssa.Call:
		fr.setLocal(x, fr.doCall(&x.Call))
	case *ssa.MakeClosure:
		env := make([]Value, len(x.Bindings))
		for i, b := range x.Bindings {
			env[i] = fr.get(b)
		}
		fr.setLocal(x, closure{fn: x.Fn.(*ssa.Function), env: env})
	case *ssa.MakeChan:
		fr.setLocal(x, &chanV{cap: in.cint(fr.get(x.Size))})
	case *ssa.MakeMap:
		nm := &mapV{}
		if in.hb != nil && gormMade(fnPkgPath(fr.fn)) {
			in.hbWatch(nm, fr.fn.String())
		}
		fr.setLocal(x, nm)
	case *ssa.MapUpdate:
		m, ok := fr.get(x.Map).(*mapV)
		if !ok {
			unsupported("map update on %T", fr.get(x.Map))
		}
		if m == nil {
			in.goPanicStr("assignment to entry in nil map")
		}
		if in.hb != nil {
			in.hbMapWrite(m, fr.fn.String())
		}
		in.mapSet(m, fr.get(x.Key), copyVal(fr.get(x.Value)))
	case *ssa.Lookup:
		switch m := fr.get(x.X).(type) {
		case *mapV:
			if in.hb != nil {
				in.hbMapRead(m, fr.fn.String())
			}
			v, ok := in.mapGet(m, fr.get(x.Index))
			if !ok {
				v = zero(x.X.Type().Underlying().(*types.Map).Elem())
			}
			if x.CommaOk {
				fr.setLocal(x, tupleV{copyVal(v), bl(ok)})
			} else {
				fr.setLocal(x, copyVal(v))
			}
		case strV:
			i, ok := in.concretize(fr.get(x.Index).(*Term), 0, len(m))
			if !ok {
				in.goPanicStr("index out of range")
			}
			fr.setLocal(x, m[i])
		default:
			unsupported("lookup %T", m)
		}
	case *ssa.Range:
		switch m := fr.get(x.X).(type) {
		case *mapV:
			if in.hb != nil {
				in.hbMapRead(m, fr.fn.String())
			}
			it := &iterV{m: m}
			if m != nil {
				it.keys = append([]Value{}, m.keys...)
				it.vals = append([]Value{}, m.vals...)
			}
			fr.setLocal(x, it)
		case strV:
			noAtom(m, "range")
			fr.setLocal(x, &iterV{s: m})
		default:
			unsupported("range %T", m)
		}
	case *ssa.Next:
		it := fr.get(x.Iter).(*iterV)
		if x.IsString {
			if it.pos >= len(it.s) {
				fr.setLocal(x, tupleV{tFalse, bv(64, 0), bv(32, 0)})
			} else {
				b := it.s[it.pos]
				if b.isConst && b.c >= 0x80 {
					// decode a concrete multi-byte rune
					str := make([]byte, 0, 4)
					for j := it.pos; j < len(it.s) && j < it.pos+4 && it.s[j].isConst; j++ {
						str = append(str, byte(it.s[j].c))
					}
					r, size := decodeRune(str)
					fr.setLocal(x, tupleV{tTrue, bv(64, uint64(it.pos)), bv(32, uint64(r))})
					it.pos += size
				} else {
					in.requireASCII(b)
					fr.setLocal(x, tupleV{tTrue, bv(64, uint64(it.pos)), resize(b, 32, false)})
					it.pos++
				}
			}
		} else {
			for it.pos < len(it.keys) {
				// skip entries deleted during iteration
				if _, ok := in.mapGetConcreteIdentity(it.m, it.keys[it.pos]); ok {
					break
				}
				it.pos++
			}
			if it.pos >= len(it.keys) {
				fr.setLocal(x, tupleV{tFalse, nil, nil})
			} else {
				v, _ := in.mapGetConcreteIdentity(it.m, it.keys[it.pos])
				fr.setLocal(x, tupleV{tTrue, it.keys[it.pos], copyVal(v)})
				it.pos++
			}
		}
	case *ssa.Send:
		fr.chanSend(fr.get(x.Chan), fr.get(x.X))
	case *ssa.Select:
		fr.setLocal(x, fr.doSelect(x))
	case *ssa.DebugRef:
	default:
		unsupported("instruction %T: %s in %s", ins, ins, fr.fn)
	}
}

func decodeRune(b []byte) (rune, int) {
	s := string(b)
	for _, r := range s {
		n := len(string(r))
		if r == 0xFFFD {
			n = 1
		}
		return r, n
	}
	return 0xFFFD, 1
}

// requireASCII restricts a symbolic byte to < 0x80 (stated assumption of every
// harness that has symbolic string bytes).
func (in *Interp) requireASCII(b *Term) {
	if b.isConst || in.asciiOK[b] {
		return
	}
	if !in.e.branch(mk("bvult", 0, b, bv(8, 0x80))) {
		unsupported("non-ASCII symbolic byte")
	}
	in.asciiOK[b] = true
}

func (fr *frame) sliceOp(x *ssa.Slice) Value {
	in := fr.in
	base := fr.get(x.X)
	lo, hi, max := 0, -1, -1
	if x.Low != nil {
		lo = in.cint(fr.get(x.Low))
	}
	if x.High != nil {
		hi = in.cint(fr.get(x.High))
	}
	if x.Max != nil {
		max = in.cint(fr.get(x.Max))
	}
	switch bb := base.(type) {
	case *Value:
		if bb == nil {
			in.goPanicStr("nil array pointer slice")
		}
		a := (*bb).(arrV)
		if hi < 0 {
			hi = len(a)
		}
		if max < 0 {
			max = len(a)
		}
		if lo < 0 || lo > hi || hi > max || max > len(a) {
			in.goPanicStr("slice bounds out of range")
		}
		s := []Value(a)
		return sliceV{a: &s, off: lo, n: hi - lo, capacity: max - lo}
	case sliceV:
		if hi < 0 {
			hi = bb.n
		}
		if max < 0 {
			max = bb.capacity
		}
		if lo < 0 || lo > hi || hi > max || max > bb.capacity {
			in.goPanicStr("slice bounds out of range")
		}
		if bb.a == nil {
			return sliceV{}
		}
		return sliceV{a: bb.a, off: bb.off + lo, n: hi - lo, capacity: max - lo}
	case strV:
		noAtom(bb, "slicing")
		if hi < 0 {
			hi = len(bb)
		}
		if lo < 0 || lo > hi || hi > len(bb) {
			in.goPanicStr("slice bounds out of range")
		}
		return bb[lo:hi:hi]
	}
	unsupported("slice of %T", base)
	return nil
}

func (in *Interp) implements(t types.Type, it *types.Interface) bool {
	return types.Implements(t, it)
}

func (fr *frame) typeAssert(x *ssa.TypeAssert) Value {
	in := fr.in
	xv := fr.get(x.X)
	if _, isOp := xv.(opaque); isOp {
		unsupported("type assertion on opaque value in %s", fr.fn)
	}
	v := xv.(iface)
	ok := false
	if v.t != nil {
		if it, isI := x.AssertedType.Underlying().(*types.Interface); isI {
			if rt, isRT := v.v.(rtype); isRT {
				_ = rt
				ok = types.Identical(x.AssertedType, in.env.reflectTypeT) || it.NumMethods() == 0
			} else {
				ok = in.implements(v.t, it)
			}
		} else {
			ok = types.Identical(v.t, x.AssertedType)
		}
	}
	var res Value
	if ok {
		if types.IsInterface(x.AssertedType) {
			res = v
		} else {
			res = v.v
		}
	} else {
		res = zero(x.AssertedType)
	}
	if x.CommaOk {
		return tupleV{res, bl(ok)}
	}
	if !ok {
		ts := "nil"
		if v.t != nil {
			ts = typeStr(v.t)
		}
		in.goPanicStr("interface conversion: interface is " + ts + ", not " + typeStr(x.AssertedType))
	}
	return res
}

func (in *Interp) convert(v Value, from, to types.Type) Value {
	tu := to.Underlying()
	switch vv := v.(type) {
	case strV:
		noAtom(vv, "conversion")
		if sl, ok := tu.(*types.Slice); ok {
			if b, ok := sl.Elem().Underlying().(*types.Basic); ok && b.Kind() == types.Int32 {
				s := mustStr(vv, "[]rune conversion")
				rs := []rune(s)
				a := make([]Value, len(rs))
				for i, r := range rs {
					a[i] = bv(32, uint64(r))
				}
				return sliceV{a: &a, n: len(a), capacity: len(a)}
			}
			a := make([]Value, len(vv))
			for i := range vv {
				a[i] = vv[i]
			}
			return sliceV{a: &a, n: len(a), capacity: len(a)}
		}
		return vv
	case sliceV:
		if b, ok := tu.(*types.Basic); ok && b.Info()&types.IsString != 0 {
			fe := from.Underlying().(*types.Slice).Elem().Underlying().(*types.Basic)
			if fe.Kind() == types.Int32 {
				rs := make([]rune, vv.n)
				for i, e := range vv.elems() {
					rs[i] = rune(in.cint(e))
				}
				return mkStr(string(rs))
			}
			r := make(strV, vv.n)
			for i, e := range vv.elems() {
				r[i] = e.(*Term)
			}
			return r
		}
		return vv
	case fltV:
		if b, ok := tu.(*types.Basic); ok {
			if b.Info()&types.IsFloat != 0 {
				if b.Kind() == types.Float32 {
					return fltV(float32(vv))
				}
				return vv
			}
			if b.Info()&types.IsInteger != 0 {
				if b.Info()&types.IsUnsigned != 0 {
					return bv(width(b), uint64(float64(vv)))
				}
				return bv(width(b), uint64(int64(float64(vv))))
			}
		}
	case *Term:
		b, ok := tu.(*types.Basic)
		if !ok {
			break
		}
		switch {
		case b.Info()&types.IsInteger != 0:
			return resize(vv, width(b), isSigned(from))
		case b.Info()&types.IsFloat != 0:
			if !vv.isConst {
				unsupported("symbolic integer to float conversion")
			}
			if isSigned(from) {
				return fltV(float64(sext(vv.c, vv.w)))
			}
			return fltV(float64(vv.c))
		case b.Info()&types.IsString != 0: // string(rune)
			if vv.isConst {
				return mkStr(string(rune(sext(vv.c, vv.w))))
			}
			in.requireASCIIRune(vv)
			return strV{resize(vv, 8, false)}
		case b.Kind() == types.UnsafePointer:
			unsupported("unsafe.Pointer conversion")
		}
	case *Value:
		return vv
	}
	unsupported("convert %T from %s to %s", v, from, to)
	return nil
}

func (in *Interp) requireASCIIRune(r *Term) {
	if !in.e.branch(mk("bvult", 0, r, bv(r.w, 0x80))) {
		unsupported("non-ASCII symbolic rune")
	}
}

func (in *Interp) binop(op token.Token, a, b Value, ta, tb types.Type) Value {
	switch x := a.(type) {
	case *Term:
		y, ok := b.(*Term)
		if !ok {
			if _, isOp := b.(opaque); isOp {
				unsupported("arithmetic on opaque value")
			}
			panic(fmt.Sprintf("binop %s on Term and %T", op, b))
		}
		return termBinop(op, x, y, isSigned(ta))
	case fltV:
		y := b.(fltV)
		switch op {
		case token.ADD:
			return x + y
		case token.SUB:
			return x - y
		case token.MUL:
			return x * y
		case token.QUO:
			return x / y
		case token.EQL:
			return bl(x == y)
		case token.NEQ:
			return bl(x != y)
		case token.LSS:
			return bl(x < y)
		case token.LEQ:
			return bl(x <= y)
		case token.GTR:
			return bl(x > y)
		case token.GEQ:
			return bl(x >= y)
		}
	case strV:
		y, ok := b.(strV)
		if !ok {
			unsupported("string binop with %T", b)
		}
		switch op {
		case token.ADD:
			return append(append(make(strV, 0, len(x)+len(y)), x...), y...)
		case token.EQL:
			return strEq(x, y)
		case token.NEQ:
			return mkNot(strEq(x, y))
		case token.LSS:
			return strLess(x, y)
		case token.GTR:
			return strLess(y, x)
		case token.LEQ:
			return mkNot(strLess(y, x))
		case token.GEQ:
			return mkNot(strLess(x, y))
		}
	case opaque:
		unsupported("operation on opaque value (%s)", x.what)
	}
	if _, ok := b.(opaque); ok {
		unsupported("operation on opaque value (%s)", b.(opaque).what)
	}
	switch op {
	case token.EQL:
		return valEq(a, b)
	case token.NEQ:
		return mkNot(valEq(a, b))
	}
	panic(fmt.Sprintf("binop %s on %T", op, a))
}

func termBinop(op token.Token, x, y *Term, signed bool) Value {
	switch op {
	case token.ADD:
		return mk("bvadd", x.w, x, y)
	case token.SUB:
		return mk("bvsub", x.w, x, y)
	case token.MUL:
		return mk("bvmul", x.w, x, y)
	case token.EQL:
		return mkEq(x, y)
	case token.NEQ:
		return mkNot(mkEq(x, y))
	case token.LSS:
		if signed {
			return mk("bvslt", 0, x, y)
		}
		return mk("bvult", 0, x, y)
	case token.LEQ:
		if signed {
			return mk("bvsle", 0, x, y)
		}
		return mk("bvule", 0, x, y)
	case token.GTR:
		if signed {
			return mk("bvslt", 0, y, x)
		}
		return mk("bvult", 0, y, x)
	case token.GEQ:
		if signed {
			return mk("bvsle", 0, y, x)
		}
		return mk("bvule", 0, y, x)
	case token.LAND:
		return mk("and", 0, x, y)
	case token.LOR:
		return mk("or", 0, x, y)
	case token.AND:
		if x.w == 0 {
			return mk("and", 0, x, y)
		}
		return mk("bvand", x.w, x, y)
	case token.OR:
		if x.w == 0 {
			return mk("or", 0, x, y)
		}
		return mk("bvor", x.w, x, y)
	case token.XOR:
		if x.w == 0 {
			return mkNot(mkEq(x, y))
		}
		return mk("bvxor", x.w, x, y)
	case token.AND_NOT:
		return mk("bvand", x.w, x, mk("bvnot", x.w, y))
	case token.QUO:
		if y.isConst && y.c == 0 {
			panic(&goPanic{val: iface{}, where: "integer divide by zero"})
		}
		if signed {
			return mk("bvsdiv", x.w, x, y)
		}
		return mk("bvudiv", x.w, x, y)
	case token.REM:
		if y.isConst && y.c == 0 {
			panic(&goPanic{val: iface{}, where: "integer divide by zero"})
		}
		if signed {
			return mk("bvsrem", x.w, x, y)
		}
		return mk("bvurem", x.w, x, y)
	case token.SHL:
		yy := resize(y, x.w, false)
		if y.w > x.w && !y.isConst {
			unsupported("symbolic wide shift")
		}
		if y.isConst && y.c >= uint64(x.w) {
			return bv(x.w, 0)
		}
		return mk("bvshl", x.w, x, yy)
	case token.SHR:
		yy := resize(y, x.w, false)
		if y.isConst && y.c >= uint64(x.w) {
			if signed {
				return mk("bvashr", x.w, x, bv(x.w, uint64(x.w-1)))
			}
			return bv(x.w, 0)
		}
		if signed {
			return mk("bvashr", x.w, x, yy)
		}
		return mk("bvlshr", x.w, x, yy)
	}
	panic("binop " + op.String())
}

func (fr *frame) doCall(c *ssa.CallCommon) Value {
	var recv, fv Value
	args := make([]Value, 0, len(c.Args))
	if c.IsInvoke() {
		recv = fr.get(c.Value)
	} else if _, isB := c.Value.(*ssa.Builtin); !isB {
		fv = fr.get(c.Value)
	}
	for _, a := range c.Args {
		args = append(args, fr.get(a))
	}
	return fr.callValue(c, fv, recv, args)
}

func (in *Interp) lookupMethod(t types.Type, pkg *types.Package, name string) *ssa.Function {
	ms := in.prog.MethodSets.MethodSet(t)
	sel := ms.Lookup(pkg, name)
	if sel == nil {
		return nil
	}
	return in.prog.MethodValue(sel)
}

func (fr *frame) callValue(c *ssa.CallCommon, fv Value, recvV Value, args []Value) Value {
	in := fr.in
	if c.IsInvoke() {
		if o, isOp := recvV.(opaque); isOp {
			return opaque{"invoke ." + c.Method.Name() + " on opaque " + o.what}
		}
		recv := recvV.(iface)
		if recv.t == nil {
			in.goPanicStr("invalid memory address or nil pointer dereference (nil interface method " + c.Method.Name() + ")")
		}
		if rt, ok := recv.v.(rtype); ok {
			return in.rtypeMethod(rt, c.Method.Name(), args)
		}
		fn := in.lookupMethod(recv.t, c.Method.Pkg(), c.Method.Name())
		if fn == nil {
			panic(fmt.Sprintf("no method %s on %s", c.Method.Name(), recv.t))
		}
		return in.call(fn, nil, append([]Value{recv.v}, args...), fr)
	}
	if f, isB := c.Value.(*ssa.Builtin); isB {
		return fr.builtin(f.Name(), args, c)
	}
	return in.callFunc(fv, args, fr)
}

func (in *Interp) callFunc(fv Value, args []Value, caller *frame) Value {
	switch f := fv.(type) {
	case *ssa.Function:
		return in.call(f, nil, args, caller)
	case closure:
		return in.call(f.fn, f.env, args, caller)
	case boundM:
		return in.call(f.fn, nil, append([]Value{f.recv}, args...), caller)
	case opaque:
		return opaque{"call of opaque " + f.what}
	case nilV:
		in.goPanicStr("call of nil function")
	}
	panic(fmt.Sprintf("call %T", fv))
}

func (fr *frame) builtin(name string, args []Value, c *ssa.CallCommon) Value {
	in := fr.in
	switch name {
	case "len":
		switch v := args[0].(type) {
		case sliceV:
			return bv(64, uint64(v.n))
		case strV:
			noAtom(v, "len")
			return bv(64, uint64(len(v)))
		case *mapV:
			if v == nil {
				return bv(64, 0)
			}
			return bv(64, uint64(len(v.keys)))
		case arrV:
			return bv(64, uint64(len(v)))
		case *Value: // pointer to array
			return bv(64, uint64(len((*v).(arrV))))
		case *chanV:
			if v == nil {
				return bv(64, 0)
			}
			return bv(64, uint64(len(v.buf)))
		}
	case "cap":
		switch v := args[0].(type) {
		case sliceV:
			return bv(64, uint64(v.capacity))
		case arrV:
			return bv(64, uint64(len(v)))
		case *chanV:
			return bv(64, uint64(v.cap))
		}
	case "close":
		ch := args[0].(*chanV)
		if ch == nil {
			in.goPanicStr("close of nil channel")
		}
		if ch.closed {
			in.goPanicStr("close of closed channel")
		}
		ch.closed = true
		in.hbRelease(ch)
		in.schedPoint("close")
		return nil
	case "copy":
		d := args[0].(sliceV)
		var src []Value
		switch sr := args[1].(type) {
		case sliceV:
			src = append([]Value{}, sr.elems()...)
		case strV:
			for _, b := range sr {
				src = append(src, b)
			}
		}
		n := d.n
		if len(src) < n {
			n = len(src)
		}
		for i := 0; i < n; i++ {
			storeVal(d.at(i), src[i])
		}
		return bv(64, uint64(n))
	case "delete":
		m := args[0].(*mapV)
		if in.hb != nil {
			in.hbMapWrite(m, fr.fn.String())
		}
		if m != nil {
			for i := range m.keys {
				if in.keyEq(m.keys[i], args[1]) {
					m.keys = append(append([]Value{}, m.keys[:i]...), m.keys[i+1:]...)
					m.vals = append(append([]Value{}, m.vals[:i]...), m.vals[i+1:]...)
					break
				}
			}
		}
		return nil
	case "append":
		s := args[0].(sliceV)
		var add []Value
		switch v := args[1].(type) {
		case sliceV:
			for _, e := range v.elems() {
				add = append(add, copyVal(e))
			}
		case strV:
			for _, b := range v {
				add = append(add, b)
			}
		}
		return appendVals(s, add)
	case "panic":
		panic(&goPanic{val: args[0], where: fr.fn.String()})
	case "recover":
		// recover is effective only when called directly by a deferred function
		// while the deferring function is panicking.
		if fr.caller != nil && fr.caller.panicking != nil {
			gp := fr.caller.panicking
			fr.caller.panicking = nil
			if gp.val == nil {
				return iface{}
			}
			if iv, ok := gp.val.(iface); ok {
				return iv
			}
			return iface{t: types.Typ[types.String], v: gp.val}
		}
		return iface{}
	case "print", "println":
		return nil
	case "ssa:wrapnilchk":
		if p, ok := args[0].(*Value); ok && p == nil {
			in.goPanicStr("value method " + mustStr(args[1], "wrapnilchk") + "." + mustStr(args[2], "wrapnilchk") + " called using nil pointer")
		}
		return args[0]
	case "min", "max":
		r := args[0]
		for _, a := range args[1:] {
			x, y := r.(*Term), a.(*Term)
			signed := isSigned(c.Args[0].Type())
			var lt *Term
			if signed {
				lt = mk("bvslt", 0, y, x)
			} else {
				lt = mk("bvult", 0, y, x)
			}
			if name == "max" {
				lt = mkNot(mk("or", 0, lt, mkEq(x, y)))
			}
			r = mkIte(lt, y, x)
		}
		return r
	case "clear":
		if m, ok := args[0].(*mapV); ok && m != nil {
			if in.hb != nil {
				in.hbMapWrite(m, fr.fn.String())
			}
			m.keys, m.vals = nil, nil
		}
		return nil
	}
	unsupported("builtin %s on %T", name, args[0])
	return nil
}

// appendVals follows Go's growth rule (double below 256 elements; no size-class
// rounding: the real capacity can only be larger).
func appendVals(s sliceV, add []Value) sliceV {
	if len(add) == 0 && s.a != nil {
		return s
	}
	if s.a != nil && s.n+len(add) <= s.capacity {
		for i, v := range add {
			(*s.a)[s.off+s.n+i] = v
		}
		return sliceV{a: s.a, off: s.off, n: s.n + len(add), capacity: s.capacity}
	}
	need := s.n + len(add)
	nc := s.capacity * 2
	if s.capacity >= 256 {
		nc = s.capacity + (s.capacity+3*256)/4
	}
	if nc < need {
		nc = need
	}
	na := make([]Value, nc)
	for i := 0; i < s.n; i++ {
		na[i] = (*s.a)[s.off+i]
	}
	for i, v := range add {
		na[s.n+i] = v
	}
	for i := need; i < nc; i++ {
		na[i] = nil
	}
	return sliceV{a: &na, n: need, capacity: nc}
}

// ---- maps

func (in *Interp) keyEq(a, b Value) bool {
	t := valEqKey(a, b)
	return in.e.branch(t)
}

func valEqKey(a, b Value) *Term {
	switch x := a.(type) {
	case iface:
		y, ok := b.(iface)
		if !ok {
			return tFalse
		}
		if x.t == nil || y.t == nil {
			return bl(x.t == nil && y.t == nil)
		}
		if !types.Identical(x.t, y.t) {
			return tFalse
		}
		return valEqKey(x.v, y.v)
	case strV:
		y, ok := b.(strV)
		if !ok {
			return tFalse
		}
		return strEq(x, y)
	}
	return valEq(a, b)
}

func (in *Interp) mapGet(m *mapV, k Value) (Value, bool) {
	if m == nil {
		return nil, false
	}
	for i := range m.keys {
		if in.keyEq(m.keys[i], k) {
			return m.vals[i], true
		}
	}
	return nil, false
}

// mapGetConcreteIdentity looks a key up during iteration (keys taken from the
// map itself, so syntactic equality suffices and no fork is needed).
func (in *Interp) mapGetConcreteIdentity(m *mapV, k Value) (Value, bool) {
	if m == nil {
		return nil, false
	}
	for i := range m.keys {
		if t := valEqKey(m.keys[i], k); t.isTrue() {
			return m.vals[i], true
		}
	}
	return nil, false
}

func (in *Interp) mapSet(m *mapV, k, v Value) {
	for i := range m.keys {
		if in.keyEq(m.keys[i], k) {
			m.vals[i] = v
			return
		}
	}
	m.keys = append(m.keys, k)
	m.vals = append(m.vals, v)
}

// ---- helpers shared with intrinsics

func (in *Interp) errorIface(pkg, typ string, fields ...Value) iface {
	p := in.prog.ImportedPackage(pkg)
	if p == nil {
		unsupported("package %s not loaded", pkg)
	}
	t := p.Type(typ).Type()
	return iface{t: types.NewPointer(t), v: newCell(structV(fields))}
}

func (in *Interp) newError(msg strV) iface {
	// *errors.errorString{s string}
	return in.errorIface("errors", "errorString", msg)
}

func fltBits(f fltV) uint64 { return math.Float64bits(float64(f)) }

func fnPkgPath(fn *ssa.Function) string {
	if fn.Pkg != nil {
		return fn.Pkg.Pkg.Path()
	}
	if fn.Object() != nil && fn.Object().Pkg() != nil {
		return fn.Object().Pkg().Path()
	}
	if o := fn.Origin(); o != nil && o != fn {
		return fnPkgPath(o)
	}
	if fn.Parent() != nil {
		return fnPkgPath(fn.Parent())
	}
	if fn.Signature.Recv() != nil {
		t := fn.Signature.Recv().Type()
		if p, ok := t.(*types.Pointer); ok {
			t = p.Elem()
		}
		if n, ok := t.(*types.Named); ok && n.Obj().Pkg() != nil {
			return n.Obj().Pkg().Path()
		}
	}
	return ""
}

func isGormPath(p string) bool {
	return p == "gorm.io/gorm" || strings.HasPrefix(p, "gorm.io/gorm/")
}

package verifh

import (
	"context"
	"database/sql/driver"
	"time"

	"gorm.io/gorm"
	"gorm.io/gorm/clause"
	"gorm.io/gorm/internal/verifrt"
	"gorm.io/gorm/schema"
)

// C07 (the half a solver can decide) — operations issued concurrently through one
// shared handle return the same result and send the same statements as when
// each runs alone, including the very first use of each model type (cold schema
// cache). Data-race freedom itself is NOT decided here (DESIGN §7).
//
// Two goroutines run one operation each on the shared handle. The schedule is
// the quantified input: which goroutine runs first and the index of the
// harness-visible point (naming-strategy call, model clause hook, boundary
// call) at which a goroutine is held until the other one has finished or is
// blocked. These points lie inside schema.Parse on both sides of the schema
// cache insertion, inside statement building and between the statements of an
// operation; holding a goroutine there is reproduced on the real build with
// real goroutines (verifrt.Park), so every counterexample replays natively.

// ---- pause points

type c07Ctl struct {
	n       [4]int // points passed per thread (0 = harness goroutine)
	pauseAt [4]int // thread t parks at its pauseAt[t]-th point (0 = never)
}

var c07ctl *c07Ctl

func c07Point() {
	c := c07ctl
	if c == nil {
		return
	}
	t := verifrt.ThreadID()
	if t < 0 || t >= len(c.n) {
		return
	}
	c.n[t]++
	if t > 0 && c.n[t] == c.pauseAt[t] {
		verifrt.Park()
	}
}

type pauseNamer struct{ stubNamer }

func (n pauseNamer) TableName(t string) string { c07Point(); return n.stubNamer.TableName(t) }
func (n pauseNamer) ColumnName(t, c string) string {
	c07Point()
	return n.stubNamer.ColumnName(t, c)
}
func (n pauseNamer) JoinTableName(t string) string { c07Point(); return n.stubNamer.JoinTableName(t) }
func (n pauseNamer) RelationshipFKName(r schema.Relationship) string {
	c07Point()
	return n.stubNamer.RelationshipFKName(r)
}

// ---- a model whose field type contributes a query clause (like a soft-delete
// marker); its hook is a pause point between the schema's insertion into the
// cache and the end of its initialisation

type Gate int64

func (g *Gate) Scan(v interface{}) error {
	switch x := v.(type) {
	case int64:
		*g = Gate(x)
	case nil:
		*g = 0
	}
	return nil
}
func (g Gate) Value() (driver.Value, error) { return int64(g), nil }

func (Gate) QueryClauses(f *schema.Field) []clause.Interface {
	c07Point()
	return []clause.Interface{gateClause{f}}
}

type gateClause struct{ f *schema.Field }

func (gateClause) Name() string               { return "" }
func (gateClause) Build(clause.Builder)       {}
func (gateClause) MergeClause(*clause.Clause) {}
func (g gateClause) ModifyStatement(stmt *gorm.Statement) {
	if _, ok := stmt.Clauses["gate_enabled"]; !ok {
		stmt.AddClause(clause.Where{Exprs: []clause.Expression{
			clause.Eq{Column: clause.Column{Table: clause.CurrentTable, Name: g.f.DBName}, Value: 0},
		}})
		stmt.Clauses["gate_enabled"] = clause.Clause{}
	}
}

// Keys comes before Gate: new schemas are parsed by one goroutine at a time, so
// the window another goroutine can look into is the one in which VKey (parsed on
// Vault's behalf) is complete and cached while Vault still lacks its clause - the
// naming-strategy calls of the Keys relation and Gate's hook lie in it
type Vault struct {
	ID   uint
	Name string
	Keys []VKey
	Gate Gate
}

type VKey struct {
	ID      uint
	VaultID uint
	Vault   *Vault
	Label   string
	Rings   []VRing `gorm:"foreignKey:KeyID"` // VRing is parsed on VKey's behalf: complete while Vault, two hops away, is not
}

// two relationship hops away from Vault (nested joins read the clauses of a schema
// that is neither the model's own nor directly related to it)
type VRing struct {
	ID    uint
	KeyID uint
	Key   *VKey `gorm:"foreignKey:KeyID"`
	Size  int
}

// ---- operations (each on its own rows)

type c07Case struct {
	name string
	run  func(db *gorm.DB) interface{}
}

func c07Rows(text string) RowSet {
	switch {
	case hasPrefix(text, "SELECT `vrings`"):
		return RowSet{Cols: []string{"id", "keyid", "size", "Key__id", "Key__vaultid", "Key__label", "Key__Vault__id", "Key__Vault__name", "Key__Vault__gate"},
			Rows: [][]driver.Value{{int64(6), int64(4), int64(1), int64(4), int64(9), "k", int64(9), "v", int64(0)}}}
	case hasPrefix(text, "SELECT `vkeys`"):
		return RowSet{Cols: []string{"id", "vaultid", "label", "Vault__id", "Vault__name", "Vault__gate"},
			Rows: [][]driver.Value{{int64(4), int64(9), "k", int64(9), "v", int64(0)}}}
	case hasPrefix(text, "SELECT * FROM `vkeys`"):
		return RowSet{Cols: []string{"id", "vaultid", "label"}, Rows: [][]driver.Value{{int64(4), int64(9), "k"}}}
	case hasPrefix(text, "SELECT * FROM `vaults`"):
		return RowSet{Cols: []string{"id", "name", "gate"}, Rows: [][]driver.Value{{int64(9), "v", int64(0)}}}
	case hasPrefix(text, "SELECT * FROM `docs`"):
		return RowSet{Cols: []string{"id", "title", "rank", "deletedat"}, Rows: [][]driver.Value{{int64(2), "d", int64(1), nil}}}
	case hasPrefix(text, "SELECT `holders`"):
		return RowSet{Cols: []string{"id", "name", "docid", "Doc__id", "Doc__title"}, Rows: [][]driver.Value{{int64(1), "h", int64(2), int64(2), "d"}}}
	}
	return c18Rows(text)
}

func c07Cases() []c07Case {
	return []c07Case{
		{"find-vault", func(db *gorm.DB) interface{} {
			var vs []Vault
			err := db.Find(&vs).Error
			return []interface{}{vs, err}
		}},
		{"join-key-vault", func(db *gorm.DB) interface{} {
			var ks []VKey
			err := db.Joins("Vault").Find(&ks).Error
			return []interface{}{ks, err}
		}},
		{"preload-key-vault", func(db *gorm.DB) interface{} {
			var ks []VKey
			err := db.Preload("Vault").Find(&ks).Error
			return []interface{}{ks, err}
		}},
		{"preload-vault-keys", func(db *gorm.DB) interface{} {
			var vs []Vault
			err := db.Preload("Keys").Find(&vs).Error
			return []interface{}{vs, err}
		}},
		{"create-vault-keys", func(db *gorm.DB) interface{} {
			v := Vault{ID: 20, Name: "n", Keys: []VKey{{ID: 21, Label: "a"}, {ID: 22, Label: "b"}}}
			err := db.Create(&v).Error
			return []interface{}{v, err}
		}},
		{"update-key", func(db *gorm.DB) interface{} {
			res := db.Model(&VKey{ID: 4}).Update("label", "z")
			return []interface{}{res.RowsAffected, res.Error}
		}},
		{"find-doc", func(db *gorm.DB) interface{} {
			var ds []Doc
			err := db.Find(&ds).Error
			return []interface{}{len(ds), err}
		}},
		{"join-holder-doc", func(db *gorm.DB) interface{} {
			var hs []Holder
			err := db.Joins("Doc").Find(&hs).Error
			return []interface{}{len(hs), err}
		}},
		{"delete-doc", func(db *gorm.DB) interface{} {
			res := db.Delete(&Doc{ID: 3})
			return []interface{}{res.RowsAffected, res.Error}
		}},
		{"create-owner-graph", func(db *gorm.DB) interface{} {
			cid := uint(31)
			o := Owner{ID: 30, Name: "o", CompanyID: &cid, Company: &Company{ID: 31, Name: "c"}, Profile: Profile{ID: 32, Bio: "b"}, Pets: []Pet{{ID: 33, Name: "p"}}}
			err := db.Create(&o).Error
			return []interface{}{o.Pets, o.Profile, err}
		}},
		{"preload-owners", func(db *gorm.DB) interface{} {
			var os []Owner
			err := db.Preload("Pets").Preload("Company").Find(&os).Error
			n := 0
			for _, o := range os {
				n += len(o.Pets)
			}
			return []interface{}{len(os), n, err}
		}},
		{"join-owner-company", func(db *gorm.DB) interface{} {
			var os []Owner
			err := db.Joins("Company").Find(&os).Error
			return []interface{}{len(os), err}
		}},
		{"transaction-items", func(db *gorm.DB) interface{} {
			err := db.Transaction(func(tx *gorm.DB) error {
				if err := tx.Create(&Item{ID: 40, Name: "a"}).Error; err != nil {
					return err
				}
				return tx.Model(&Item{ID: 40}).Update("name", "b").Error
			})
			return []interface{}{err}
		}},
		{"association-pets", func(db *gorm.DB) interface{} {
			o := Owner{ID: 1}
			var pets []Pet
			err := db.Model(&o).Association("Pets").Find(&pets)
			n := db.Model(&o).Association("Pets").Count()
			return []interface{}{len(pets), n, err}
		}},
		{"join-ring-key-vault", func(db *gorm.DB) interface{} {
			var rs []VRing
			err := db.Joins("Key.Vault").Find(&rs).Error
			return []interface{}{rs, err}
		}},
	}
}

// pairs explored in the quick tier: (a, b) indexes into c07Cases
func c07Pairs(tier int) [][2]int {
	n := len(c07Cases())
	var ps [][2]int
	if tier > 0 {
		for a := 0; a < n; a++ {
			for b := 0; b < n; b++ {
				ps = append(ps, [2]int{a, b})
			}
		}
		return ps
	}
	// related models first-hand and through relations, same model twice, unrelated models
	return [][2]int{{0, 0}, {0, 1}, {1, 0}, {0, 2}, {2, 0}, {1, 1}, {1, 2}, {0, 3}, {3, 1}, {4, 0}, {4, 1}, {4, 3}, {5, 1}, {5, 0},
		{6, 6}, {6, 7}, {7, 6}, {8, 7}, {7, 7}, {9, 10}, {10, 9}, {9, 11}, {11, 10}, {10, 10}, {9, 13}, {13, 10}, {12, 12}, {12, 0}, {6, 0}, {9, 1},
		{0, 14}, {14, 0}, {14, 1}, {4, 14}}
}

// thorough-only shapes (all ordered pairs) are numbered after the quick ones
func N_C07_Shared(tier int) int {
	if tier > 0 {
		return 2*len(c07Pairs(0)) + 2*len(c07Pairs(1))
	}
	return 2 * len(c07Pairs(0))
}

type c07Run struct {
	events []Event
	result interface{}
	points int
}

func c07Store() *Store {
	s := NewStore()
	s.Before = c07Point
	s.OnQuery = func(text string, args []driver.Value) RowSet { return c07Rows(text) }
	next := map[int]int64{}
	s.OnExecCtx = func(ctx int, text string, args []driver.Value) Result {
		next[ctx]++
		return Result{LastID: 100 + next[ctx], Affected: 1}
	}
	return s
}

func c07Events(s *Store, tag int) []Event {
	var r []Event
	for _, e := range s.Log {
		if e.Ctx == tag {
			switch e.Kind {
			case "BEGIN", "EXEC", "QUERY", "COMMIT", "ROLLBACK":
				r = append(r, e)
			}
		}
	}
	return r
}

func c07Now() time.Time { return time.Unix(1700000000, 0).UTC() }

// alone: the operation on a fresh handle (cold cache), nothing else running
// (concrete and the same on every path: computed once per operation)
func c07Alone(c c07Case, tag int, prepare bool) c07Run {
	key := "c07alone/" + c.name
	if prepare {
		key += "/prepare"
	}
	key += "/" + string([]byte{byte('0' + tag/11)})
	return verifrt.Memo(key, func() interface{} { return c07AloneRun(c, tag, prepare) }).(c07Run)
}

func c07AloneRun(c c07Case, tag int, prepare bool) c07Run {
	if c07ctl == nil {
		c07ctl = &c07Ctl{}
	}
	s := c07Store()
	db := openReal(stubDialector{}, s, &gorm.Config{PrepareStmt: prepare, NamingStrategy: pauseNamer{}, NowFunc: c07Now})
	before := c07ctl.n[0]
	res := c.run(db.WithContext(context.WithValue(context.Background(), ctxTagKey{}, tag)))
	return c07Run{events: c07Events(s, tag), result: res, points: c07ctl.n[0] - before}
}

func c07Same(got, want []Event, label string) {
	verifrt.Assert(len(got) == len(want), "C07.statements-differ:"+label)
	for i := range want {
		if i >= len(got) {
			break
		}
		verifrt.Assert(got[i].Kind == want[i].Kind && got[i].Text == want[i].Text, "C07.statements-differ:"+label)
		verifrt.Assert(got[i].Fail == want[i].Fail && (got[i].Tx != 0) == (want[i].Tx != 0), "C07.statements-differ:"+label)
		verifrt.Assert(len(got[i].Args) == len(want[i].Args), "C07.arguments-differ:"+label)
		for j := range want[i].Args {
			if j < len(got[i].Args) {
				verifrt.Assert(verifrt.SameValue(got[i].Args[j], want[i].Args[j]), "C07.arguments-differ:"+label)
			}
		}
	}
}

func H_C07_Shared(shape int) {
	ps := c07Pairs(0)
	if shape >= 2*len(ps) {
		shape -= 2 * len(ps)
		ps = c07Pairs(1)
	}
	pair := ps[shape%len(ps)]
	prepare := (shape/len(ps))%2 == 1
	c07Concurrent([]int{pair[0], pair[1]}, prepare)
}

// three goroutines (thorough tier): triples over the related models
var c07Triples = [][3]int{{0, 1, 1}, {0, 1, 2}, {1, 0, 3}, {3, 1, 1}, {4, 1, 0}, {3, 2, 1}, {9, 10, 11}, {10, 13, 9}, {6, 7, 8}, {0, 7, 10}}

func N_C07_Three(tier int) int {
	if tier > 0 {
		return len(c07Triples)
	}
	return 3
}

func H_C07_Three(shape int) {
	t := c07Triples[shape]
	c07Concurrent([]int{t[0], t[1], t[2]}, false)
}

func c07Concurrent(idx []int, prepare bool) {
	cs := c07Cases()
	n := len(idx)
	tag := ""
	for k, i := range idx {
		if k > 0 {
			tag += "|"
		}
		tag += cs[i].name
	}
	verifrt.Tag(tag)
	verifrt.Preemptions(0)
	c07ctl = &c07Ctl{}
	tags := []int{11, 22, 33}
	want := make([]c07Run, n)
	for k, i := range idx {
		want[k] = c07Alone(cs[i], tags[k], prepare)
	}

	verifrt.MapRaces()
	s := c07Store()
	db := openReal(stubDialector{}, s, &gorm.Config{PrepareStmt: prepare, NamingStrategy: pauseNamer{}, NowFunc: c07Now})
	warm := verifrt.Bool("warm")
	if warm {
		// warm cache: every model of the operations was used before
		for _, i := range idx {
			cs[i].run(db.WithContext(context.WithValue(context.Background(), ctxTagKey{}, 5)))
		}
	}
	// the schedule: one goroutine is held at one of its points until the others are
	// finished or blocked; which goroutine runs first is a schedule choice of the engine
	who := verifrt.Concretize(verifrt.Intn("hold_thread", 1, n), 1, n)
	at := verifrt.Intn("hold_at", 0, want[who-1].points)
	// warm cache: the start orders only
	verifrt.Assume(verifrt.Or(!warm, at == 0))
	// no hold at all is the same schedule for every thread: explore it once
	verifrt.Assume(verifrt.Or(who == 1, at != 0))
	c07ctl.pauseAt[who] = verifrt.Concretize(at, 0, want[who-1].points)
	got := make([]interface{}, n)
	done := make([]bool, n)
	for k := range idx {
		k := k
		c := cs[idx[k]]
		verifrt.Go(func() {
			got[k] = c.run(db.WithContext(context.WithValue(context.Background(), ctxTagKey{}, tags[k])))
			done[k] = true
		})
	}
	verifrt.WaitAll()
	verifrt.Reach("joined")
	for k := range idx {
		label := string([]byte{byte('a' + k)})
		verifrt.Assert(done[k], "C07.goroutine-stuck")
		verifrt.Observe(label, c07Texts(c07Events(s, tags[k])))
		c07Same(c07Events(s, tags[k]), want[k].events, label)
		verifrt.Assert(verifrt.SameValue(got[k], want[k].result), "C07.result-differs:"+label)
	}
	verifrt.Assert(s.OpenTx() == 0, "C07.transaction-left-open")
	verifrt.Assert(PoolInUse(dbPool(db)) == 0, "C07.connection-left-out")
}

func c07Texts(es []Event) []string {
	var r []string
	for _, e := range es {
		t := e.Kind + " " + e.Text
		if e.Fail {
			t += " !"
		}
		r = append(r, t)
	}
	return r
}

// ---- free interleaving at synchronisation points (sync.Map operations, mutexes,
// channel operations, boundary calls), preemption bound 1. Such schedules
// cannot be forced on the real build: a counterexample found here is replayed
// natively up to 400 times and, if it does not show, makes the run inconclusive
// (exit 2) instead of being reported as a violation.

var c07FreePairs = [][2]int{{0, 0}, {0, 1}, {1, 0}, {3, 1}, {4, 1}, {6, 7}, {7, 6}, {9, 10}, {10, 9}, {9, 11}}

func N_C07_Free(tier int) int {
	if tier > 0 {
		return len(c07FreePairs)
	}
	return 3
}

func H_C07_Free(shape int) {
	pair := c07FreePairs[shape]
	cs := c07Cases()
	ca, cb := cs[pair[0]], cs[pair[1]]
	verifrt.Tag(ca.name + "|" + cb.name)
	c07ctl = &c07Ctl{}
	wantA := c07Alone(ca, 11, false)
	wantB := c07Alone(cb, 22, false)
	verifrt.Preemptions(1)
	verifrt.SyncMapPoints()
	verifrt.MapRaces()
	s := c07Store()
	db := openReal(stubDialector{}, s, &gorm.Config{NamingStrategy: pauseNamer{}, NowFunc: c07Now})
	var ra, rb interface{}
	verifrt.Go(func() { ra = ca.run(db.WithContext(context.WithValue(context.Background(), ctxTagKey{}, 11))) })
	verifrt.Go(func() { rb = cb.run(db.WithContext(context.WithValue(context.Background(), ctxTagKey{}, 22))) })
	verifrt.WaitAll()
	verifrt.Reach("joined")
	c07Same(c07Events(s, 11), wantA.events, "a")
	c07Same(c07Events(s, 22), wantB.events, "b")
	verifrt.Assert(verifrt.SameValue(ra, wantA.result), "C07.result-differs:a")
	verifrt.Assert(verifrt.SameValue(rb, wantB.result), "C07.result-differs:b")
	verifrt.Assert(s.OpenTx() == 0, "C07.transaction-left-open")
}

package verifh

import (
	"database/sql/driver"

	"gorm.io/gorm"
	"gorm.io/gorm/clause"
	"gorm.io/gorm/internal/verifrt"
)

// C06 — reusable handles are never changed by the chains and queries derived
// from them. A reusable handle is built from a prefix of chain calls followed
// by Session; two sibling chains are derived from it, extended and finished in
// interleaved order, and each must equal the same calls replayed alone on a
// fresh root.

var c06OpNames = []string{
	"Where", "Or", "Not", "Select", "Omit", "Order", "OrderDesc", "Limit", "Offset", "Group", "Having", "Joins",
	"Distinct", "Unscoped", "Scopes", "Returning", "ClauseOrderBy", "Locking", "OnConflict", "Table", "Model", "SelectInvalid",
	"WhereMap", "SelectArgs", "Preload", "InnerJoins", "SelectInvalidSlice",
}

func c06Apply(db *gorm.DB, op int, x int, variant int) *gorm.DB {
	// the identifier used depends on the chain, so that chains writing into a
	// shared slot are distinguishable
	col := []string{"a", "b", "c"}[variant%3]
	switch c06OpNames[op] {
	case "Where":
		return db.Where(col+" = ?", x)
	case "Or":
		return db.Or(col+" = ?", x)
	case "Not":
		return db.Not(col+" = ?", x)
	case "Select":
		return db.Select(col)
	case "Omit":
		return db.Omit(col)
	case "Order":
		return db.Order(col)
	case "OrderDesc":
		return db.Order(col + " desc")
	case "Limit":
		return db.Limit(x)
	case "Offset":
		return db.Offset(x)
	case "Group":
		return db.Group(col)
	case "Having":
		return db.Having(col+" > ?", x)
	case "Joins":
		return db.Joins("JOIN t2 ON t2.id = t3s.a AND t2.v = ?", x)
	case "InnerJoins":
		return db.InnerJoins("JOIN t4 ON t4.id = t3s.b AND t4.v = ?", x)
	case "Distinct":
		return db.Distinct(col)
	case "Unscoped":
		return db.Unscoped()
	case "Scopes":
		return db.Scopes(func(d *gorm.DB) *gorm.DB { return d.Where("c > ?", x) })
	case "Returning":
		return db.Clauses(clause.Returning{Columns: []clause.Column{{Name: col}}})
	case "ClauseOrderBy":
		return db.Clauses(clause.OrderBy{Columns: []clause.OrderByColumn{{Column: clause.Column{Name: col}, Desc: true}}})
	case "Locking":
		return db.Clauses(clause.Locking{Strength: "UPDATE"})
	case "OnConflict":
		return db.Clauses(clause.OnConflict{DoNothing: true})
	case "Table":
		return db.Table("t3s")
	case "Model":
		return db.Model(&T3{})
	case "SelectInvalid":
		return db.Select(42)
	case "SelectInvalidSlice":
		return db.Select([]string{"a"}, 42)
	case "WhereMap":
		return db.Where(map[string]interface{}{"b": x})
	case "SelectArgs":
		return db.Select("a, ? AS k", x)
	case "Preload":
		return db
	}
	return db
}

func c06Finish(db *gorm.DB, fin int) (string, []interface{}, error) {
	var stmt *gorm.Statement
	var res *gorm.DB
	switch fin {
	case 0:
		var out []T3
		res = db.Find(&out)
	case 1:
		var n int64
		res = db.Model(&T3{}).Count(&n)
	case 2:
		res = db.Model(&T3{}).Update("c", 1)
	case 3:
		res = db.Delete(&T3{})
	case 4:
		var out T3
		res = db.First(&out)
	case 5:
		// Count called directly on the handle (which names its table itself)
		var n int64
		res = db.Count(&n)
	}
	stmt = res.Statement
	return stmt.SQL.String(), stmt.Vars, res.Error
}

type c06Shape struct {
	table  bool // the handle names its table (Table) before the prefix calls
	ret    bool // dialect with RETURNING support
	prefix int  // op kind repeated three times before Session (-1: bare root handle)
	via    int  // how the reusable handle is obtained: 0 Session{}, 1 WithContext, 2 Debug, 3 Session{NewDB:false,Context}
	fin    int
}

func c06Shapes(tier int) []c06Shape {
	var r []c06Shape
	for p := -1; p < len(c06OpNames); p++ {
		if p >= 0 && (c06OpNames[p] == "SelectInvalid" || c06OpNames[p] == "Preload" || c06OpNames[p] == "SelectInvalidSlice") {
			continue
		}
		r = append(r, c06Shape{prefix: p, fin: 0})
		if p >= 0 && (c06OpNames[p] == "Order" || c06OpNames[p] == "Where" || c06OpNames[p] == "Select" || c06OpNames[p] == "Group") {
			r = append(r, c06Shape{prefix: p, fin: 5, table: true}, c06Shape{prefix: p, fin: 5, table: true, via: 1})
		}
		if p >= 0 && (c06OpNames[p] == "Returning" || c06OpNames[p] == "Where" || c06OpNames[p] == "OnConflict") {
			r = append(r, c06Shape{prefix: p, fin: 2, ret: true}, c06Shape{prefix: p, fin: 3, ret: true})
		}
		if tier > 0 || p == 0 || p == 5 || p == 11 {
			r = append(r, c06Shape{prefix: p, via: 1, fin: 1}, c06Shape{prefix: p, via: 2, fin: 4}, c06Shape{prefix: p, via: 3, fin: 2})
		}
	}
	return r
}

func N_C06_Siblings(tier int) int { return len(c06Shapes(tier)) }

func c06Handle(root *gorm.DB, sh c06Shape, x int) *gorm.DB {
	h := root
	if sh.table {
		h = h.Table("t3s")
	}
	if sh.prefix >= 0 {
		for i := 0; i < 3; i++ {
			h = c06Apply(h, sh.prefix, x+i, 0)
		}
	}
	switch sh.via {
	case 0:
		return h.Session(&gorm.Session{})
	case 1:
		return h.WithContext(tagCtx(4))
	case 2:
		return h.Debug()
	}
	return h.Session(&gorm.Session{Context: tagCtx(4)})
}

func H_C06_Siblings(shape int) {
	tier := 1
	memo := func(t int) []c06Shape {
		return verifrt.Memo("c06Shapes"+string([]byte{byte('0' + t)}), func() interface{} { return c06Shapes(t) }).([]c06Shape)
	}
	if shape < len(memo(0)) {
		tier = 0
	}
	sh := memo(tier)[shape]
	pname := "root"
	if sh.prefix >= 0 {
		pname = c06OpNames[sh.prefix] + "x3"
	}
	verifrt.Tag(pname)
	x := verifrt.Int("x")
	nops := len(c06OpNames)
	// chain 1 extends the handle with the prefix kind again or one of three other kinds; chain 2 with any kind
	k1 := sh.prefix
	switch verifrt.Concretize(verifrt.Intn("op1", 0, 3), 0, 3) {
	case 1:
		k1 = 0 // Where
	case 2:
		k1 = 5 // Order
	case 3:
		k1 = 21 // SelectInvalid (abandoned chain with an error)
	}
	if k1 == 21 && verifrt.Bool("invalid_slice_form") {
		k1 = 26 // SelectInvalidSlice
	}
	if k1 < 0 {
		k1 = 3
	}
	k2 := verifrt.Concretize(verifrt.Intn("op2", 0, nops-1), 0, nops-1)
	verifrt.Tag(c06OpNames[k1] + "|" + c06OpNames[k2])
	y1, y2 := verifrt.Int("y1"), verifrt.Int("y2")

	root := openDry(stubDialector{returning: sh.ret})
	h := c06Handle(root, sh, x)
	// interleaved history: derive 1, derive 2, finish 2, finish 1, then a chain from the untouched handle
	c1 := c06Apply(h, k1, y1, 1)
	c2 := c06Apply(h, k2, y2, 2)
	sql2, vars2, err2 := c06Finish(c2, sh.fin)
	sql1, vars1, err1 := c06Finish(c1, sh.fin)
	sql0, vars0, err0 := c06Finish(h, sh.fin)
	// and once more after everything was executed
	sql2b, vars2b, _ := c06Finish(c06Apply(h, k2, y2, 2), sh.fin)
	// a plain Find from the handle after all those finishers (Count, First … ran on it)
	sql3, vars3, _ := c06Finish(h, 0)

	// the same calls replayed alone, each in a fresh process state
	alone := func(k int, y int, variant int) (string, []interface{}, error) {
		r := openDry(stubDialector{returning: sh.ret})
		c := c06Handle(r, sh, x)
		if k >= 0 {
			c = c06Apply(c, k, y, variant)
		}
		return c06Finish(c, sh.fin)
	}
	w1, wv1, we1 := alone(k1, y1, 1)
	w2, wv2, we2 := alone(k2, y2, 2)
	w0, wv0, we0 := alone(-1, 0, 0)
	verifrt.Reach("compared")
	verifrt.Observe("sql1", sql1)
	verifrt.Observe("sql2", sql2)
	verifrt.Observe("sql0", sql0)
	verifrt.Assert(sql1 == w1, "C06.chain1-sql")
	verifrt.Assert(verifrt.SameValue(vars1, wv1), "C06.chain1-vars")
	verifrt.Assert((err1 == nil) == (we1 == nil), "C06.chain1-error")
	verifrt.Assert(sql2 == w2, "C06.chain2-sql")
	verifrt.Assert(verifrt.SameValue(vars2, wv2), "C06.chain2-vars")
	verifrt.Assert((err2 == nil) == (we2 == nil), "C06.chain2-error")
	verifrt.Assert(sql0 == w0, "C06.handle-sql")
	verifrt.Assert(verifrt.SameValue(vars0, wv0), "C06.handle-vars")
	verifrt.Assert((err0 == nil) == (we0 == nil), "C06.handle-error")
	w3, wv3, _ := func() (string, []interface{}, error) {
		r := openDry(stubDialector{returning: sh.ret})
		return c06Finish(c06Handle(r, sh, x), 0)
	}()
	verifrt.Assert(sql3 == w3, "C06.handle-find-after-finishers")
	verifrt.Assert(verifrt.SameValue(vars3, wv3), "C06.handle-find-after-finishers")
	verifrt.Assert(sql2b == w2, "C06.later-chain-sql")
	verifrt.Assert(verifrt.SameValue(vars2b, wv2), "C06.later-chain-vars")
}

// ---- reusable handles over the boundary store: an operation A runs from the
// handle, then an operation B; the statements B sends must be those it sends
// from a freshly built equal handle on which A never ran.

type c06Reuse struct {
	name   string
	handle func(db *gorm.DB, x int) *gorm.DB
	a, b   func(h *gorm.DB, root *gorm.DB)
}

func c06ReuseCases() []c06Reuse {
	sess := func(db *gorm.DB) *gorm.DB { return db.Session(&gorm.Session{}) }
	return []c06Reuse{
		{"select-associations-delete",
			// (one relation: gorm visits the selected relations in map order)
			func(db *gorm.DB, x int) *gorm.DB { return sess(db.Select("Pets", "Pets.Name")) },
			func(h, root *gorm.DB) { h.Delete(&Owner{ID: 3}) },
			func(h, root *gorm.DB) { h.Delete(&Owner{ID: 4}) }},
		{"select-associations-delete-nested-first",
			func(db *gorm.DB, x int) *gorm.DB { return sess(db.Select("Profile.Bio", "Profile")) },
			func(h, root *gorm.DB) { h.Delete(&Owner{ID: 3}) },
			func(h, root *gorm.DB) { h.Delete(&Owner{ID: 4}) }},
		{"or-first-soft-unscoped-then-scoped",
			func(db *gorm.DB, x int) *gorm.DB {
				return sess(db.Model(&Doc{}).Or("rank = ?", x).Where("title = ?", "t"))
			},
			func(h, root *gorm.DB) { var ds []Doc; h.Unscoped().Find(&ds) },
			func(h, root *gorm.DB) { var ds []Doc; h.Find(&ds) }},
		{"or-first-soft-scoped-twice",
			func(db *gorm.DB, x int) *gorm.DB {
				return sess(db.Model(&Doc{}).Or("rank = ?", x).Where("title = ?", "t"))
			},
			func(h, root *gorm.DB) { var ds []Doc; h.Find(&ds) },
			func(h, root *gorm.DB) { var n int64; h.Count(&n) }},
		{"handle-as-group-condition",
			func(db *gorm.DB, x int) *gorm.DB { return sess(db.Or("age = ?", x).Where("name = ?", "n")) },
			func(h, root *gorm.DB) { var is []Item; root.Where(h).Find(&is) },
			func(h, root *gorm.DB) { var is []Item; h.Where("score = ?", 1).Find(&is) }},
		{"handle-as-group-condition-single-or",
			func(db *gorm.DB, x int) *gorm.DB { return sess(db.Or("age = ?", x)) },
			func(h, root *gorm.DB) { var is []Item; root.Where(h).Find(&is) },
			func(h, root *gorm.DB) { var is []Item; h.Where("score = ?", 1).Find(&is) }},
		{"handle-as-group-condition-scopes",
			func(db *gorm.DB, x int) *gorm.DB {
				return sess(db.Scopes(func(tx *gorm.DB) *gorm.DB { return tx.Where("age > ?", x) }).Where("name = ?", "n"))
			},
			func(h, root *gorm.DB) { var is []Item; root.Where(h).Find(&is) },
			func(h, root *gorm.DB) { var is []Item; h.Find(&is) }},
		{"updates-then-find",
			func(db *gorm.DB, x int) *gorm.DB { return sess(db.Model(&Item{}).Where("age = ?", x)) },
			func(h, root *gorm.DB) { h.Updates(map[string]interface{}{"name": "z"}) },
			func(h, root *gorm.DB) { var is []Item; h.Find(&is) }},
		{"find-then-delete-soft",
			func(db *gorm.DB, x int) *gorm.DB { return sess(db.Model(&Doc{}).Where("rank = ?", x)) },
			func(h, root *gorm.DB) { var ds []Doc; h.Find(&ds) },
			func(h, root *gorm.DB) { h.Delete(&Doc{}) }},
		{"first-then-find-joins",
			func(db *gorm.DB, x int) *gorm.DB { return sess(db.Joins("Company").Where("owners.id > ?", x)) },
			func(h, root *gorm.DB) { var o Owner; h.First(&o) },
			func(h, root *gorm.DB) { var os []Owner; h.Find(&os) }},
		{"preload-scope-and-inline-find-twice",
			// a scope function followed by inline conditions among the Preload arguments
			func(db *gorm.DB, x int) *gorm.DB {
				return sess(db.Preload("Pets", func(tx *gorm.DB) *gorm.DB { return tx.Where("id > ?", x) }, "name <> ?", "x").Where("id > ?", x))
			},
			func(h, root *gorm.DB) { var os []Owner; h.Find(&os) },
			func(h, root *gorm.DB) { var os []Owner; h.Find(&os) }},
		{"where-invalid-then-find",
			// a condition value that cannot be built is the chain's own error, not the handle's
			func(db *gorm.DB, x int) *gorm.DB { return db.WithContext(tagCtx(7)) },
			func(h, root *gorm.DB) { var is []Item; var bad *[]uint; h.Where(bad).Find(&is) },
			func(h, root *gorm.DB) { var is []Item; h.Where("age = ?", 1).Find(&is) }},
		{"preload-find-twice",
			func(db *gorm.DB, x int) *gorm.DB {
				return sess(db.Preload("Pets", "name <> ?", "x").Where("id > ?", x))
			},
			func(h, root *gorm.DB) { var os []Owner; h.Find(&os) },
			func(h, root *gorm.DB) { var os []Owner; h.Find(&os) }},
	}
}

func N_C06_Reuse(tier int) int { return len(c06ReuseCases()) }

func c06Stmts(s *Store, from int) []Event {
	var r []Event
	for _, e := range s.Log[from:] {
		if e.Kind == "EXEC" || e.Kind == "QUERY" {
			r = append(r, e)
		}
	}
	return r
}

func H_C06_Reuse(shape int) {
	c := c06ReuseCases()[shape]
	verifrt.Tag(c.name)
	x := verifrt.Int("x")
	open := func() (*gorm.DB, *Store) {
		s := NewStore()
		s.OnQuery = func(text string, args []driver.Value) RowSet { return c18Rows(text) }
		return openReal(stubDialector{}, s, &gorm.Config{NowFunc: c07Now}), s
	}
	// A then B from one handle
	root, s := open()
	h := c.handle(root, x)
	c.a(h, root)
	mark := len(s.Log)
	c.b(h, root)
	got := c06Stmts(s, mark)
	// B alone
	root2, s2 := open()
	c.b(c.handle(root2, x), root2)
	want := c06Stmts(s2, 0)
	verifrt.Reach("compared")
	verifrt.Observe("got", c07Texts(got))
	verifrt.Observe("want", c07Texts(want))
	verifrt.Assert(len(got) == len(want), "C06.reused-handle-statements")
	for i := range want {
		if i >= len(got) {
			break
		}
		verifrt.Assert(got[i].Text == want[i].Text, "C06.reused-handle-sql")
		verifrt.Assert(len(got[i].Args) == len(want[i].Args), "C06.reused-handle-vars")
		for j := range want[i].Args {
			if j < len(got[i].Args) {
				verifrt.Assert(verifrt.SameValue(got[i].Args[j], want[i].Args[j]), "C06.reused-handle-vars")
			}
		}
	}
}

package verifh

import (
	"database/sql/driver"
	"errors"

	"gorm.io/gorm"
	"gorm.io/gorm/clause"
	"gorm.io/gorm/internal/verifrt"
)

// C05 — each single write operation is all-or-nothing under any failure and
// reports it. Shapes = operation kinds; symbolic = fault position over the
// boundary calls of the operation, failing hook invocation, which hook writes.

var c05Ops = []string{
	"create-struct", "create-slice", "create-map", "create-assoc", "create-batches-3/2", "create-batches-4/3", "create-batches-2/2",
	"create-hooks", "create-hooks-slice", "save-new", "save-existing", "save-existing-upsert",
	"update", "updates-struct", "updates-hooks", "delete", "delete-soft", "delete-hooks", "delete-hook-writes", "create-hook-writes", "update-hook-writes",
	"create-assoc-full", "create-batches-session", "create-many2many", "delete-many2many-select", "create-many2many-full",
	"create-polymorphic", "save-assoc-existing", "save-assoc-new-children", "updates-assoc-full", "delete-assoc-select-hasmany",
	"create-back-reference", "create-slice-assoc", "save-hooks-existing",
	"create-slice-hasone", "create-hasmany-children-hasone",
}

// every operation runs under a dialect without and with RETURNING support
func N_C05_Ops(tier int) int { return 2 * len(c05Ops) }

func H_C05_Ops(shape int) {
	op := c05Ops[shape%len(c05Ops)]
	returning := shape >= len(c05Ops)
	verifrt.Tag(op)
	s := NewStore()
	db := openReal(stubDialector{returning: returning}, s, nil)
	hooks = &hookCtl{}
	s.FaultAt = verifrt.Intn("fault_at", 0, 12)
	hooks.failAt = verifrt.Intn("hook_fail_at", 0, 8)
	// at most one failure per run (the property quantifies single failures)
	verifrt.Assume(verifrt.Or(s.FaultAt == 0, hooks.failAt == 0))
	next := int64(0)
	// with RETURNING, generated keys come back as rows; the result set of the k-th such
	// statement may fail while it is read (a constraint violation surfaces on the first
	// fetch, a lost connection after some rows): the statement then wrote nothing
	breakAt, broke, nret := 0, false, 0
	if returning {
		breakAt = verifrt.Intn("break_at", 0, 5)
		verifrt.Assume(verifrt.Or(breakAt == 0, verifrt.And(s.FaultAt == 0, hooks.failAt == 0)))
		s.OnQuery = func(text string, args []driver.Value) RowSet {
			cols, ok := between(text, " RETURNING ", "")
			if !ok {
				return RowSet{}
			}
			nret++
			rs := RowSet{Cols: quotedNames(cols)}
			tuples := 1 + countSub(text, "),(")
			for i := 0; i < tuples; i++ {
				next += 10
				row := make([]driver.Value, len(rs.Cols))
				for j := range row {
					row[j] = next
				}
				rs.Rows = append(rs.Rows, row)
			}
			if nret == breakAt {
				broke = true
				rs.BreakAfter = -1
			}
			return rs
		}
	}
	zeroAffected := false
	s.OnExec = func(text string, args []driver.Value) Result {
		next += 10
		if zeroAffected && hasPrefix(text, "UPDATE") {
			return Result{LastID: next, Affected: 0}
		}
		return Result{LastID: next, Affected: 1}
	}
	var res *gorm.DB
	switch op {
	case "create-struct":
		res = db.Create(&Item{Name: "a", Age: verifrt.Int("age")})
	case "create-slice":
		res = db.Create(&[]Item{{Name: "a"}, {Name: "b"}})
	case "create-map":
		res = db.Model(&Item{}).Create(map[string]interface{}{"name": "m", "age": verifrt.Int("age")})
	case "create-assoc":
		res = db.Create(&Owner{Name: "o", Company: &Company{Name: "c"}, Profile: Profile{Bio: "b"}, Pets: []Pet{{Name: "p1"}, {Name: "p2"}}})
	case "create-assoc-full":
		res = db.Session(&gorm.Session{FullSaveAssociations: true}).Create(&Owner{Name: "o", Company: &Company{Name: "c"}, Pets: []Pet{{Name: "p1"}}})
	case "create-many2many":
		res = db.Create(&Speaker{Name: "s", Langs: []Lang{{Name: "go"}, {Name: "ml"}}})
	case "create-many2many-full":
		res = db.Session(&gorm.Session{FullSaveAssociations: true}).Create(&Speaker{Name: "s", Langs: []Lang{{ID: 4, Name: "go"}}})
	case "delete-many2many-select":
		res = db.Select("Langs").Delete(&Speaker{ID: 3, Name: "s"})
	case "create-polymorphic":
		res = db.Create(&Kid{Name: "k", Toys: []Toy{{Name: "t1"}, {Name: "t2"}}})
	case "save-assoc-existing":
		cid := uint(5)
		res = db.Save(&Owner{ID: 3, Name: "o", CompanyID: &cid, Company: &Company{ID: 5, Name: "c"}, Pets: []Pet{{ID: 7, Name: "p"}}})
	case "save-assoc-new-children":
		res = db.Save(&Owner{ID: 3, Name: "o", Profile: Profile{Bio: "b"}, Pets: []Pet{{Name: "p1"}, {Name: "p2"}}})
	case "updates-assoc-full":
		res = db.Session(&gorm.Session{FullSaveAssociations: true}).Updates(&Owner{ID: 3, Name: "o", Pets: []Pet{{ID: 7, Name: "p"}}})
	case "delete-assoc-select-hasmany":
		res = db.Select("Pets").Delete(&Owner{ID: 3}) // one relation: gorm visits selected relations in map order
	case "create-back-reference":
		o := &HOrder{Name: "o"}
		o.Items = []*HItem{{Name: "i1", Order: o}, {Name: "i2", Order: o}}
		res = db.Create(o)
	case "create-slice-assoc":
		res = db.Create(&[]Owner{{Name: "o1", Pets: []Pet{{Name: "p1"}}}, {Name: "o2", Company: &Company{Name: "c"}}})
	case "create-slice-hasone":
		// has-one rows of a slice of owners
		res = db.Create(&[]Owner{{Name: "o1", Profile: Profile{Bio: "b1"}}, {Name: "o2", Profile: Profile{Bio: "b2"}}})
	case "create-hasmany-children-hasone":
		// has-many children that each carry a has-one of their own (children are saved as a slice)
		res = db.Create(&Kennel{Name: "k", Keepers: []Keeper{{Name: "a", Badge: Badge{Code: "x"}}, {Name: "b", Badge: Badge{Code: "y"}}}})
	case "save-hooks-existing":
		res = db.Save(&HRec{ID: 3, Name: "r", Kids: []HKid{{Name: "k"}}})
	case "create-batches-3/2":
		res = db.CreateInBatches(&[]Item{{Name: "a"}, {Name: "b"}, {Name: "c"}}, 2)
	case "create-batches-4/3":
		res = db.CreateInBatches(&[]Item{{Name: "a"}, {Name: "b"}, {Name: "c"}, {Name: "d"}}, 3)
	case "create-batches-2/2":
		res = db.CreateInBatches(&[]Item{{Name: "a"}, {Name: "b"}}, 2)
	case "create-batches-session":
		res = db.Session(&gorm.Session{CreateBatchSize: 2}).Create(&[]Item{{Name: "a"}, {Name: "b"}, {Name: "c"}})
	case "create-hooks":
		res = db.Create(&HRec{Name: "r", Kids: []HKid{{Name: "k"}}})
	case "create-hooks-slice":
		res = db.Create(&[]*HRec{{Name: "r1"}, {Name: "r2"}})
	case "create-hook-writes":
		hooks.writeIn = []string{"BeforeSave", "BeforeCreate", "AfterCreate", "AfterSave"}[verifrt.Concretize(verifrt.Intn("write_in", 0, 3), 0, 3)]
		res = db.Create(&HRec{Name: "r"})
	case "save-new":
		res = db.Save(&Item{Name: "a"})
	case "save-existing":
		res = db.Save(&Item{ID: 3, Name: "a"})
	case "save-existing-upsert":
		zeroAffected = true
		res = db.Save(&Item{ID: 3, Name: "a"})
	case "update":
		res = db.Model(&Item{ID: 3}).Update("name", "x")
	case "updates-struct":
		res = db.Model(&Item{ID: 3}).Updates(Item{Name: "x", Age: verifrt.Int("age")})
	case "updates-hooks":
		res = db.Model(&HRec{ID: 3, Name: "r"}).Updates(map[string]interface{}{"val": 2})
	case "update-hook-writes":
		hooks.writeIn = []string{"BeforeSave", "BeforeUpdate", "AfterUpdate", "AfterSave"}[verifrt.Concretize(verifrt.Intn("write_in", 0, 3), 0, 3)]
		res = db.Model(&HRec{ID: 3, Name: "r"}).Updates(map[string]interface{}{"val": 2})
	case "delete":
		res = db.Delete(&Item{ID: 3})
	case "delete-soft":
		res = db.Delete(&Doc{ID: 3})
	case "delete-hooks":
		res = db.Select(clause.Associations).Delete(&HRec{ID: 3, Name: "r"})
	case "delete-hook-writes":
		hooks.writeIn = []string{"BeforeDelete", "AfterDelete"}[verifrt.Concretize(verifrt.Intn("write_in", 0, 1), 0, 1)]
		res = db.Delete(&HRec{ID: 3, Name: "r"})
	}
	verifrt.Reach("done")
	verifrt.Observe("err", res.Error)
	verifrt.Observe("log", s.Kinds())
	verifrt.Observe("hooks", hooks.events)
	verifrt.Observe("durable", s.Durable)

	faultFired := s.FaultAt != 0 && s.Calls() >= s.FaultAt
	hookFired := hooks.failAt != 0 && hooks.n >= hooks.failAt
	// the failure is reported
	if faultFired {
		verifrt.Assert(res.Error != nil, "C05.fault-swallowed")
		verifrt.Assert(errors.Is(res.Error, errInjected), "C05.fault-not-wrapped")
	}
	if hookFired {
		verifrt.Assert(res.Error != nil, "C05.hook-error-swallowed")
		verifrt.Assert(errors.Is(res.Error, errHook), "C05.hook-error-not-wrapped")
	}
	if broke {
		verifrt.Assert(res.Error != nil, "C05.fault-swallowed")
		verifrt.Assert(errors.Is(res.Error, errRowsBroken), "C05.fault-not-wrapped")
	}
	if !faultFired && !hookFired && !broke {
		verifrt.Assert(res.Error == nil, "C05.spurious-error")
	}
	// all or nothing
	if res.Error != nil {
		verifrt.Assert(len(s.Durable) == 0, "C05.partial-write")
	} else {
		verifrt.Assert(len(s.Durable) == s.nextTok, "C05.lost-write")
		verifrt.Assert(s.nextTok >= 1, "C05.nothing-written")
	}
	// the implicit transaction is always finished, connection returned
	verifrt.Assert(s.OpenTx() == 0, "C05.tx-open")
	verifrt.Assert(PoolInUse(dbPool(db)) == 0, "C05.conn-leak")
}

//go:build !verifsym

package verifh

import (
	"context"
	"database/sql"
	"database/sql/driver"
	"errors"
	"io"
	"sync"
)

// Native back end: the real database/sql over a pure-Go fake driver whose
// Conn/Tx/Stmt/Rows are thin adapters onto the same Store.

type fakeConnector struct{ s *Store }

var storeMu sync.Mutex // database/sql may call the driver from several goroutines

// database/sql repeats a call that failed with driver.ErrBadConn outside a
// transaction: twice more (maxBadConnRetries cached-or-new attempts, then one on a new connection)
const sqlBadConnRetries = 2

func lockStore()   { storeMu.Lock() }
func unlockStore() { storeMu.Unlock() }

var nativePools sync.Map // *sql.DB -> *Store

func OpenPool(s *Store) *sql.DB {
	db := sql.OpenDB(fakeConnector{s})
	nativePools.Store(db, s)
	return db
}

// PoolInUse: connections checked out of the real pool.
func PoolInUse(db *sql.DB) int { return db.Stats().InUse }

func (c fakeConnector) Connect(context.Context) (driver.Conn, error) { return &fakeConn{s: c.s}, nil }
func (c fakeConnector) Driver() driver.Driver                        { return fakeDriver{} }

type fakeDriver struct{}

func (fakeDriver) Open(string) (driver.Conn, error) { return nil, errors.New("use OpenPool") }

type fakeConn struct {
	s     *Store
	tx    *txState
	stmts []*fakeStmt // statements prepared on this connection: they die with it
}

func namedToValues(args []driver.NamedValue) []driver.Value {
	out := make([]driver.Value, len(args))
	for i, a := range args {
		out[i] = a.Value
	}
	return out
}

func (c *fakeConn) Prepare(query string) (driver.Stmt, error) {
	return c.PrepareContext(context.Background(), query)
}
func (c *fakeConn) PrepareContext(ctx context.Context, query string) (driver.Stmt, error) {
	storeMu.Lock()
	defer storeMu.Unlock()
	if err := c.s.Prepare(c.tx, ctxTag(ctx), query); err != nil {
		return nil, err
	}
	st := &fakeStmt{c: c, text: query}
	c.stmts = append(c.stmts, st)
	return st, nil
}

// Close: a connection database/sql gives up (driver.ErrBadConn) takes its
// statements with it - database/sql does not close every one of them itself
// (a statement re-prepared for a transaction by Tx.StmtContext is not in the
// connection's own list).
func (c *fakeConn) Close() error {
	storeMu.Lock()
	defer storeMu.Unlock()
	for _, st := range c.stmts {
		if !st.closed {
			st.closed = true
			c.s.CloseStmt(st.text)
		}
	}
	c.stmts = nil
	return nil
}
func (c *fakeConn) Begin() (driver.Tx, error) {
	return c.BeginTx(context.Background(), driver.TxOptions{})
}
func (c *fakeConn) BeginTx(ctx context.Context, opts driver.TxOptions) (driver.Tx, error) {
	c.s.pausePoint()
	storeMu.Lock()
	defer storeMu.Unlock()
	st, err := c.s.Begin(ctxTag(ctx))
	if err != nil {
		return nil, err
	}
	c.tx = st
	return &fakeTx{c: c, st: st}, nil
}
func (c *fakeConn) ExecContext(ctx context.Context, query string, args []driver.NamedValue) (driver.Result, error) {
	c.s.pausePoint()
	storeMu.Lock()
	defer storeMu.Unlock()
	res, err := c.s.Exec(c.tx, ctxTag(ctx), query, namedToValues(args))
	if err != nil {
		return nil, err
	}
	return res, nil
}
func (c *fakeConn) QueryContext(ctx context.Context, query string, args []driver.NamedValue) (driver.Rows, error) {
	c.s.pausePoint()
	storeMu.Lock()
	defer storeMu.Unlock()
	set, err := c.s.Query(c.tx, ctxTag(ctx), query, namedToValues(args))
	if err != nil {
		return nil, err
	}
	return &fakeRows{s: c.s, set: set}, nil
}

type fakeTx struct {
	c  *fakeConn
	st *txState
}

func (t *fakeTx) Commit() error {
	t.c.s.pausePoint()
	storeMu.Lock()
	defer storeMu.Unlock()
	t.c.tx = nil
	return t.c.s.Commit(t.st)
}
func (t *fakeTx) Rollback() error {
	storeMu.Lock()
	defer storeMu.Unlock()
	t.c.tx = nil
	return t.c.s.Rollback(t.st)
}

type fakeStmt struct {
	c      *fakeConn
	text   string
	closed bool
}

func (s *fakeStmt) Close() error {
	storeMu.Lock()
	defer storeMu.Unlock()
	if !s.closed {
		s.closed = true
		s.c.s.CloseStmt(s.text)
	}
	return nil
}
func (s *fakeStmt) NumInput() int { return -1 }
func (s *fakeStmt) Exec(args []driver.Value) (driver.Result, error) {
	return nil, errors.New("use ExecContext")
}
func (s *fakeStmt) Query(args []driver.Value) (driver.Rows, error) {
	return nil, errors.New("use QueryContext")
}
func (s *fakeStmt) ExecContext(ctx context.Context, args []driver.NamedValue) (driver.Result, error) {
	return s.c.ExecContext(ctx, s.text, args)
}
func (s *fakeStmt) QueryContext(ctx context.Context, args []driver.NamedValue) (driver.Rows, error) {
	return s.c.QueryContext(ctx, s.text, args)
}

type fakeRows struct {
	s      *Store
	set    RowSet
	pos    int
	closed bool
}

func (r *fakeRows) Columns() []string { return r.set.Cols }
func (r *fakeRows) Close() error {
	storeMu.Lock()
	defer storeMu.Unlock()
	if !r.closed {
		r.closed = true
		r.s.CloseRows()
	}
	return nil
}
func (r *fakeRows) Next(dest []driver.Value) error {
	if r.set.BreakAfter < 0 || (r.set.BreakAfter > 0 && r.pos >= r.set.BreakAfter) {
		return errRowsBroken
	}
	if r.pos >= len(r.set.Rows) {
		return io.EOF
	}
	copy(dest, r.set.Rows[r.pos])
	r.pos++
	return nil
}

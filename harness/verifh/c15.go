package verifh

import (
	"database/sql/driver"
	"errors"

	"gorm.io/gorm"
	"gorm.io/gorm/internal/verifrt"
)

// C15 — all read paths agree; batched reads visit every row exactly once in
// key order. The query stub keeps a table with ids 1..N (N symbolic) and
// answers from the statement's cursor / LIMIT / OFFSET clauses and arguments.

// table size bound: 4 rows in the quick tier, 7 in the thorough tier
var c15NMax = 4 + 3*verifrt.Tier()

// c15Answer interprets `... WHERE `items`.`id` > ? ... ORDER BY ... [DESC] LIMIT ? OFFSET ?`.
func c15Answer(n int, text string, args []driver.Value) RowSet {
	rs := RowSet{Cols: []string{"id", "name", "age", "score"}}
	if hasPrefix(text, "SELECT count(*)") {
		return RowSet{Cols: []string{"count(*)"}, Rows: [][]driver.Value{{int64(n)}}}
	}
	// the i-th '?' of the text is bound to args[i]
	argAt := func(marker string) (int, bool) {
		p := indexStr(text, marker)
		if p < 0 {
			return 0, false
		}
		return int(args[countByte(text[:p+len(marker)-1], '?')].(int64)), true
	}
	cursor, _ := argAt("`id` > ?")
	limit, hasLimit := argAt("LIMIT ?")
	offset, _ := argAt("OFFSET ?")
	desc := indexStr(text, " DESC") >= 0
	avail := n - cursor
	if avail < 0 {
		avail = 0
	}
	avail -= offset
	if avail < 0 {
		avail = 0
	}
	if hasLimit && limit < avail {
		avail = limit
	}
	cnt := verifrt.Concretize(avail, 0, c15NMax)
	first := verifrt.Concretize(cursor+offset+1, 1, 2*c15NMax+4)
	if desc {
		first = verifrt.Concretize(n-offset, -c15NMax-4, c15NMax)
	}
	for i := 0; i < cnt; i++ {
		id := first + i
		if desc {
			id = first - i
		}
		if hasPrefix(text, "SELECT `id` FROM") {
			rs.Rows = append(rs.Rows, []driver.Value{int64(id)})
		} else {
			rs.Rows = append(rs.Rows, []driver.Value{int64(id), "n", int64(id), int64(0)})
		}
	}
	if hasPrefix(text, "SELECT `id` FROM") {
		rs.Cols = []string{"id"}
	}
	return rs
}

var c15Chains = []string{"none", "limit", "offset", "limit-offset", "limit-limit", "limit-cancel", "offset-cancel", "offset-offset", "limit-zero", "limit-then-zero", "offset-limit-offset", "order3-nested-finders", "distinct", "select-columns"}

type c15Vals struct{ l1, l2, o1, o2 int }

func c15Draw(n int) c15Vals {
	return c15Vals{l1: verifrt.Intn("l1", 1, n+2), l2: verifrt.Intn("l2", 1, n+2), o1: verifrt.Intn("o1", 0, n+1), o2: verifrt.Intn("o2", 0, n+1)}
}

func c15Chain(db *gorm.DB, kind string, v c15Vals) (*gorm.DB, string) {
	switch kind {
	case "limit":
		return db.Limit(v.l1), kind
	case "offset":
		return db.Offset(v.o1), kind
	case "limit-offset":
		return db.Limit(v.l1).Offset(v.o1), kind
	case "limit-limit":
		return db.Limit(v.l1).Limit(v.l2), kind
	case "limit-cancel":
		return db.Limit(v.l1).Limit(-1), kind
	case "offset-cancel":
		return db.Offset(v.o1).Offset(-1), kind
	case "offset-offset":
		return db.Offset(v.o1).Offset(v.o2), kind
	case "limit-zero":
		return db.Limit(0), kind
	case "limit-then-zero":
		return db.Limit(v.l1).Limit(0), kind
	case "order3-nested-finders":
		return db.Order("id").Order("id").Order("id"), kind
	case "distinct":
		return db.Distinct("id", "name", "age", "score"), kind
	case "select-columns":
		return db.Select("id", "name", "age", "score"), kind
	case "offset-limit-offset":
		return db.Offset(v.o1).Limit(v.l1).Offset(v.o2), kind
	}
	return db, kind
}

func N_C15_Batches(tier int) int { return len(c15Chains) }

func H_C15_Batches(shape int) {
	kind := c15Chains[shape]
	verifrt.Tag(kind)
	n := verifrt.Concretize(verifrt.Intn("N", 0, c15NMax), 0, c15NMax)
	s := NewStore()
	s.OnQuery = func(text string, args []driver.Value) RowSet { return c15Answer(n, text, args) }
	db := openReal(stubDialector{}, s, nil)
	vals := c15Draw(n)
	// the chain is built twice: once executed directly by Find, once reused by
	// FindInBatches (and, in one shape, by other finishers inside the callback)
	direct, _ := c15Chain(db.Model(&Item{}), kind, vals)
	chain, _ := c15Chain(db.Model(&Item{}), kind, vals)
	chain = chain.Session(&gorm.Session{})
	bs := verifrt.Intn("batch", 1, n+1)
	// what Find returns for the same chain on the same stub
	var all []Item
	fres := direct.Find(&all)
	verifrt.Assert(fres.Error == nil, "C15.find-error")
	findText := ""
	if len(s.Log) > 0 {
		findText = s.Log[0].Text
	}
	nFind := len(s.Log)
	var got []uint
	var rows []Item
	calls := 0
	res := chain.FindInBatches(&rows, bs, func(tx *gorm.DB, batch int) error {
		calls++
		verifrt.Assert(len(rows) <= bs, "C15.batch-too-large")
		verifrt.Assert(len(rows) > 0, "C15.empty-batch-delivered")
		verifrt.Assert(batch == calls, "C15.batch-number")
		verifrt.Assert(tx.RowsAffected == int64(len(rows)), "C15.batch-rows-affected")
		for _, r := range rows {
			got = append(got, r.ID)
		}
		if kind == "order3-nested-finders" {
			// other finishers derived from the same reusable chain while batching
			var x, y Item
			chain.First(&y)
			chain.Last(&x)
		}
		return nil
	})
	verifrt.Reach("done")
	verifrt.Observe("find", len(all))
	verifrt.Observe("got", got)
	verifrt.Observe("log", s.Kinds())
	verifrt.Assert(res.Error == nil, "C15.batches-error")
	// exactly the rows Find would, once each, in key order
	verifrt.Assert(len(got) == len(all), "C15.row-count")
	for i := range all {
		if i < len(got) {
			verifrt.Assert(got[i] == all[i].ID, "C15.rows")
		}
	}
	for i := 1; i < len(got); i++ {
		verifrt.Assert(got[i] > got[i-1], "C15.key-order")
	}
	verifrt.Assert(res.RowsAffected == int64(len(got)), "C15.rows-affected")
	verifrt.Assert(s.OpenRows == 0, "C15.rows-not-closed")
	// every batch reads what Find reads: the same SELECT ... FROM part (DISTINCT, columns, table)
	head := findText
	for _, end := range []string{" WHERE ", " ORDER BY ", " LIMIT ", " OFFSET "} {
		if j := indexStr(head, end); j >= 0 {
			head = head[:j]
		}
	}
	for len(head) > 0 && head[len(head)-1] == ' ' {
		head = head[:len(head)-1]
	}
	for _, e := range s.Log[nFind:] {
		if e.Kind == "QUERY" && kind != "order3-nested-finders" {
			verifrt.Assert(hasPrefix(e.Text, head+" ") || e.Text == head, "C15.batch-statement-shape")
		}
	}
}

// ---- Limit/Offset merge rules on the emitted statement

func N_C15_LimitMerge(tier int) int { return len(c15Chains) }

func H_C15_LimitMerge(shape int) {
	kind := c15Chains[shape]
	verifrt.Tag(kind)
	db := openDry(stubDialector{})
	chain, _ := c15Chain(db.Model(&Item{}), kind, c15Draw(5))
	var out []Item
	stmt := chain.Find(&out).Statement
	sql := stmt.SQL.String()
	verifrt.Observe("sql", sql)
	// reference: later positive values override earlier ones, negative values cancel
	// (the nondets are re-read in call order through the recorded Vars)
	hasLimit := indexStr(sql, "LIMIT ?") >= 0
	hasOffset := indexStr(sql, "OFFSET ?") >= 0
	switch kind {
	case "none", "limit-cancel":
		verifrt.Assert(!hasLimit && !hasOffset, "C15.merge")
	case "limit", "limit-limit", "limit-then-zero":
		verifrt.Assert(hasLimit && !hasOffset && len(stmt.Vars) == 1, "C15.merge")
	case "offset-cancel":
		verifrt.Assert(!hasLimit && !hasOffset, "C15.merge")
	case "limit-zero":
		verifrt.Assert(hasLimit && verifrt.SameValue(stmt.Vars[0], 0), "C15.merge")
	}
}

// ---- single-record finders, Count, RowsAffected, ErrRecordNotFound

var c15Finders = []string{"first", "take", "last", "first-scopes-session", "take-scopes-withcontext", "last-scopes-debug", "first-where", "find", "find-map", "scan", "pluck", "count", "rows-scanrows", "first-map", "take-slice", "find-broken-rows", "find-map-broken-rows", "pluck-broken-rows", "batches-broken-rows", "scan-broken-rows", "scan-map-broken-rows", "scan-value-broken-rows", "first-broken-rows", "count-broken-rows", "count-then-page", "count-then-page-session"}

func N_C15_Finders(tier int) int { return len(c15Finders) }

func H_C15_Finders(shape int) {
	kind := c15Finders[shape]
	verifrt.Tag(kind)
	n := verifrt.Concretize(verifrt.Intn("N", 0, 2), 0, 2)
	s := NewStore()
	s.OnQuery = func(text string, args []driver.Value) RowSet { return c15Answer(n, text, args) }
	db := openReal(stubDialector{}, s, nil).Model(&Item{})
	scope := func(f func(*gorm.DB) *gorm.DB) func(*gorm.DB) *gorm.DB { return f }
	var res *gorm.DB
	var one Item
	single := false
	wantID := uint(0)
	rows := int64(-1)
	switch kind {
	case "first":
		res, single, wantID = db.First(&one), true, 1
	case "take":
		res, single, wantID = db.Take(&one), true, 1
	case "last":
		res, single, wantID = db.Last(&one), true, uint(n)
	case "first-scopes-session":
		res, single, wantID = db.Scopes(scope(func(tx *gorm.DB) *gorm.DB { return tx.Session(&gorm.Session{}).Where("age > ?", 0) })).First(&one), true, 1
	case "take-scopes-withcontext":
		res, single, wantID = db.Scopes(scope(func(tx *gorm.DB) *gorm.DB { return tx.WithContext(tagCtx(3)).Where("age > ?", 0) })).Take(&one), true, 1
	case "last-scopes-debug":
		res, single, wantID = db.Scopes(scope(func(tx *gorm.DB) *gorm.DB { return tx.Debug().Where("age > ?", 0) })).Last(&one), true, uint(n)
	case "first-where":
		res, single, wantID = db.Where("age > ?", 0).First(&one), true, 1
	case "first-map":
		m := map[string]interface{}{}
		res, single = db.First(&m), true
		wantID = 0
	case "take-slice":
		var sl []Item
		res = db.Take(&sl)
		single = true
		rows = 1
		if n == 0 {
			rows = 0
		}
	case "find":
		var sl []Item
		res = db.Find(&sl)
		rows = int64(len(sl))
		verifrt.Assert(len(sl) == n, "C15.find-rows")
	case "find-map":
		var sl []map[string]interface{}
		res = db.Find(&sl)
		rows = int64(len(sl))
		verifrt.Assert(len(sl) == n, "C15.find-map-rows")
	case "scan":
		var sl []Item
		res = db.Scan(&sl)
		rows = int64(len(sl))
		verifrt.Assert(len(sl) == n, "C15.scan-rows")
	case "pluck":
		var ids []int64
		res = db.Pluck("id", &ids)
		rows = int64(len(ids))
		verifrt.Assert(len(ids) == n, "C15.pluck-rows")
	case "count":
		var c int64
		res = db.Count(&c)
		verifrt.Assert(c == int64(n), "C15.count")
	case "find-broken-rows", "find-map-broken-rows", "pluck-broken-rows", "batches-broken-rows", "scan-broken-rows", "scan-map-broken-rows", "scan-value-broken-rows", "first-broken-rows", "count-broken-rows":
		// the result set of three rows fails after a symbolic number of rows were
		// delivered (0: on the very first fetch)
		k := verifrt.Concretize(verifrt.Intn("break_after", 0, 2), 0, 2)
		s.OnQuery = func(text string, args []driver.Value) RowSet {
			rs := c15Answer(3, text, args)
			rs.BreakAfter = k
			if k == 0 {
				rs.BreakAfter = -1
			}
			return rs
		}
		switch kind {
		case "find-broken-rows":
			var sl []Item
			res = db.Find(&sl)
		case "find-map-broken-rows":
			var sl []map[string]interface{}
			res = db.Find(&sl)
		case "pluck-broken-rows":
			var ids []int64
			res = db.Pluck("id", &ids)
		case "batches-broken-rows":
			var sl []Item
			res = db.FindInBatches(&sl, 3, func(tx *gorm.DB, batch int) error { return nil })
		case "scan-broken-rows":
			var sl []Item
			res = db.Scan(&sl)
		case "scan-map-broken-rows":
			var sl []map[string]interface{}
			res = db.Scan(&sl)
		case "scan-value-broken-rows":
			var id int64
			res = db.Select("id").Scan(&id)
			if k > 0 {
				return // a single value was read before the result set broke
			}
		case "first-broken-rows":
			var it Item
			res = db.First(&it)
			if k > 0 {
				return // First reads one row
			}
		case "count-broken-rows":
			var c int64
			res = db.Count(&c)
			if k > 0 {
				return // the one count row was read
			}
		}
		// a read that lost rows reports it
		verifrt.Assert(errors.Is(res.Error, errRowsBroken), "C15.broken-result-set-not-reported")
		return
	case "count-then-page", "count-then-page-session":
		// the pagination idiom: Count, then the page read chained onto its result, sends
		// the same page query as the page read alone
		h := db.Where("age > ?", 0).Order("score desc")
		if kind == "count-then-page-session" {
			h = h.Session(&gorm.Session{})
		}
		lastQuery := func() (string, []driver.Value) {
			for i := len(s.Log) - 1; i >= 0; i-- {
				if s.Log[i].Kind == "QUERY" {
					return s.Log[i].Text, s.Log[i].Args
				}
			}
			return "", nil
		}
		var a, b []Item
		var c int64
		verifrt.Assert(h.Session(&gorm.Session{}).Limit(2).Offset(1).Find(&a).Error == nil, "C15.error")
		alone, aloneArgs := lastQuery()
		verifrt.Assert(h.Session(&gorm.Session{}).Count(&c).Limit(2).Offset(1).Find(&b).Error == nil, "C15.error")
		after, afterArgs := lastQuery()
		verifrt.Observe("page", alone)
		verifrt.Assert(after == alone, "C15.page-after-count-differs")
		verifrt.Assert(len(afterArgs) == len(aloneArgs), "C15.page-after-count-differs")
		if kind == "count-then-page-session" {
			// and the handle itself still reads the same page
			var d []Item
			verifrt.Assert(h.Limit(2).Offset(1).Find(&d).Error == nil, "C15.error")
			again, _ := lastQuery()
			verifrt.Assert(again == alone, "C15.page-after-count-differs")
		}
		return
	case "rows-scanrows":
		rs, err := db.Rows()
		verifrt.Assert(err == nil, "C15.rows-error")
		k := 0
		for rs.Next() {
			var it Item
			verifrt.Assert(db.ScanRows(rs, &it) == nil, "C15.scanrows-error")
			k++
			verifrt.Assert(it.ID == uint(k), "C15.scanrows-value")
		}
		rs.Close()
		verifrt.Assert(k == n, "C15.rows-count")
		return
	}
	verifrt.Reach("done")
	verifrt.Observe("err", res.Error)
	verifrt.Observe("log", s.Kinds())
	if single {
		// ErrRecordNotFound exactly when a single-record finder matches nothing
		verifrt.Assert(errors.Is(res.Error, gorm.ErrRecordNotFound) == (n == 0), "C15.not-found")
		if n > 0 {
			verifrt.Assert(res.Error == nil, "C15.finder-error")
			if wantID != 0 {
				verifrt.Assert(one.ID == wantID, "C15.first-last-key")
			}
			if rows < 0 {
				rows = 1
			}
		} else {
			rows = 0
		}
	} else {
		verifrt.Assert(res.Error == nil, "C15.error")
	}
	if rows >= 0 {
		verifrt.Assert(res.RowsAffected == rows, "C15.rows-affected")
	}
}

// ---- the key cursor of later batches guards every disjunct of the user's condition

var c15CursorChains = []string{"where", "where-or", "or-leading", "where-not", "where-or-raw", "group", "where-or-limit", "where-or-offset", "where-or-limit-offset"}

func N_C15_BatchCursor(tier int) int { return len(c15CursorChains) }

func H_C15_BatchCursor(shape int) {
	kind := c15CursorChains[shape]
	verifrt.Tag(kind)
	s := NewStore()
	type q struct {
		text string
		args []driver.Value
	}
	var queries []q
	s.OnQuery = func(text string, args []driver.Value) RowSet {
		queries = append(queries, q{text, args})
		return c15Answer(3, text, args)
	}
	base := openReal(stubDialector{}, s, nil)
	db := base.Model(&Item{})
	x, y := verifrt.Int("x"), verifrt.Int("y")
	switch kind {
	case "where":
		db = db.Where("age > ?", x)
	case "where-or":
		db = db.Where("age > ?", x).Or("age < ?", y)
	case "or-leading":
		db = db.Or("age > ?", x)
	case "where-not":
		db = db.Where("age > ?", x).Not("age = ?", y)
	case "where-or-raw":
		db = db.Where("age > ? OR age < ?", x, y)
	case "group":
		db = db.Where(base.Where("age > ?", x).Or("age < ?", y))
	case "where-or-limit":
		db = db.Where("age > ?", x).Or("age < ?", y).Limit(3)
	case "where-or-offset":
		db = db.Where("age > ?", x).Or("age < ?", y).Offset(0).Limit(3)
	case "where-or-limit-offset":
		db = db.Limit(3).Where("age > ?", x).Or("age < ?", y)
	}
	var rows []Item
	res := db.FindInBatches(&rows, 1, func(tx *gorm.DB, batch int) error { return nil })
	verifrt.Assert(res.Error == nil, "C15.batches-error")
	row := newSymRow("id", "age")
	verifrt.Assume(!row.nulls[0])
	later := 0
	for _, qq := range queries {
		if indexStr(qq.text, "`id` > ?") < 0 {
			continue
		}
		later++
		verifrt.Observe("later-batch", qq.text)
		w, ok := whereText(qq.text)
		verifrt.Assert(ok, "C15.cursor-no-where")
		vars := make([]interface{}, len(qq.args))
		for i := range qq.args {
			vars[i] = qq.args[i]
		}
		nw := countByte(w, '?')
		got, _ := evalWhere(w, vars[:nw], row)
		cur := int(qq.args[nw-1].(int64))
		idv, _, _ := row.col("id")
		// a row at or before the cursor is never visited again
		verifrt.Assert(verifrt.Implies(got.t, idv > cur), "C15.cursor-not-guarding")
	}
	verifrt.Assert(later >= 2, "C15.cursor-vacuous")
}

// ---- NULL columns read into maps: the key is present with a nil value, also in a
// map that already holds another row (read paths agree with Find into structs)

func N_C15_MapNull(tier int) int { return 3 }

func H_C15_MapNull(shape int) {
	s := NewStore()
	v := verifrt.Int("v")
	nullSecond := true
	s.OnQuery = func(text string, args []driver.Value) RowSet {
		rs := RowSet{Cols: []string{"id", "v"}}
		if indexStr(text, "id = ?") >= 0 && len(args) > 0 {
			if verifrt.SameValue(args[0], int64(1)) {
				rs.Rows = [][]driver.Value{{int64(1), int64(v)}}
			} else {
				rs.Rows = [][]driver.Value{{int64(2), nil}}
			}
			return rs
		}
		rs.Rows = [][]driver.Value{{int64(1), int64(v)}, {int64(2), nil}}
		return rs
	}
	_ = nullSecond
	db := openReal(stubDialector{}, s, nil)
	switch shape {
	case 0:
		var ms []map[string]interface{}
		verifrt.Assert(db.Model(&KPtrInt{}).Find(&ms).Error == nil, "C15.error")
		verifrt.Assert(len(ms) == 2, "C15.find-map-rows")
		_, has := ms[1]["v"]
		verifrt.Assert(has && ms[1]["v"] == nil, "C15.map-null-column")
		verifrt.Assert(ms[0]["v"] != nil, "C15.map-value-lost")
	case 1:
		// one map used for two rows: the second row's NULL replaces the first row's value
		m := map[string]interface{}{}
		verifrt.Assert(db.Model(&KPtrInt{}).Where("id = ?", 1).Take(&m).Error == nil, "C15.error")
		verifrt.Assert(m["v"] != nil, "C15.map-value-lost")
		verifrt.Assert(db.Model(&KPtrInt{}).Where("id = ?", 2).Take(&m).Error == nil, "C15.error")
		_, has := m["v"]
		verifrt.Assert(has && m["v"] == nil, "C15.map-null-column")
	case 2:
		var rs []KPtrInt
		verifrt.Assert(db.Find(&rs).Error == nil, "C15.error")
		verifrt.Assert(len(rs) == 2 && rs[0].V != nil && *rs[0].V == v && rs[1].V == nil, "C15.struct-null-column")
	}
	verifrt.Reach("read")
}

// ---- FindInBatches on a chain that joins a table with a key column of the same
// name: the cursor of the later batches names the model's own table

func N_C15_BatchJoins(tier int) int { return 2 }

func H_C15_BatchJoins(shape int) {
	s := NewStore()
	s.OnQuery = func(text string, args []driver.Value) RowSet {
		rs := RowSet{Cols: []string{"id", "name", "companyid", "Company__id", "Company__name"}}
		if indexStr(text, "`id` > ?") < 0 {
			rs.Rows = [][]driver.Value{{int64(1), "o1", int64(5), int64(5), "c"}}
		}
		return rs
	}
	db := openReal(stubDialector{}, s, nil)
	var os []Owner
	var res *gorm.DB
	if shape == 0 {
		res = db.Joins("Company").FindInBatches(&os, 1, func(tx *gorm.DB, batch int) error { return nil })
	} else {
		res = db.Joins("JOIN companys ON companys.id = owners.companyid").FindInBatches(&os, 1, func(tx *gorm.DB, batch int) error { return nil })
	}
	verifrt.Reach("ran")
	verifrt.Observe("log", s.Kinds())
	verifrt.Assert(res.Error == nil, "C15.error")
	later := 0
	for _, e := range s.Log {
		if e.Kind == "QUERY" && indexStr(e.Text, "`id` > ?") >= 0 {
			later++
			verifrt.Assert(indexStr(e.Text, "`owners`.`id` > ?") >= 0, "C15.cursor-column-not-qualified")
		}
	}
	verifrt.Assert(later == 1, "C15.batches")
}

package verifh

import (
	"strconv"

	"gorm.io/gorm/internal/verifrt"
)

// N_C01_WhereInts: shapes = (L, K, dialect)
func N_C01_WhereInts(tier int) int { return len(c01WhereShapes(tier)) }

type c01Shape struct {
	L, K     int
	numbered bool
}

func c01WhereShapes(tier int) []c01Shape {
	lmax, kmax := 5, 2
	if tier > 0 {
		lmax, kmax = 8, 3
	}
	var s []c01Shape
	for l := 0; l <= lmax; l++ {
		for k := 0; k <= kmax && k <= l; k++ {
			s = append(s, c01Shape{l, k, false}, c01Shape{l, k, true})
		}
	}
	return s
}

// H_C01_WhereInts: db.Table("t").Where(<L symbolic bytes>, <K symbolic ints>...).Find
func H_C01_WhereInts(shape int) {
	tier := 1
	sh := c01WhereShapes(tier)[shape%len(c01WhereShapes(tier))]
	if shape < len(c01WhereShapes(0)) {
		sh = c01WhereShapes(0)[shape]
	}
	tpl := verifrt.Bytes("tpl", sh.L)
	for i := 0; i < len(tpl); i++ {
		verifrt.Assume(verifrt.And(tpl[i] >= 0x20, tpl[i] < 0x7f))
		verifrt.Assume(tpl[i] != '@')
	}
	verifrt.Assume(countByte(tpl, '?') == sh.K)
	args := make([]interface{}, sh.K)
	for i := range args {
		args[i] = verifrt.Int("arg")
	}
	binds := []bindRec{}
	db := openDry(stubDialector{numbered: sh.numbered, binds: &binds})
	var dest []map[string]interface{}
	stmt := db.Table("t").Where(tpl, args...).Find(&dest).Statement
	verifrt.Reach("built")
	sql := stmt.SQL.String()
	verifrt.Observe("sql", sql)
	verifrt.Observe("nvars", len(stmt.Vars))
	verifrt.Assert(len(binds) == len(stmt.Vars), "P2.count")
	if _, err := strconv.Atoi(tpl); err == nil {
		// a numeric string is documented as a primary-key value: it is bound, not spliced
		verifrt.Reach("numeric")
		verifrt.Assert(len(stmt.Vars) == 1, "P3.numeric")
		verifrt.Assert(verifrt.SameValue(stmt.Vars[0], tpl), "P3.numeric")
		return
	}
	verifrt.Assert(len(stmt.Vars) == sh.K, "P3.dropped")
	for i := range stmt.Vars {
		verifrt.Assert(verifrt.SameValue(stmt.Vars[i], args[i]), "P3.order")
		verifrt.Assert(verifrt.SameValue(binds[i].val, args[i]), "P2.order")
	}
	verifrt.Assert(!verifrt.Mentions(sql, "arg"), "P1.splice")
}

package verifh

import (
	"errors"

	"gorm.io/gorm"
	"gorm.io/gorm/internal/verifrt"
)

// C04 — transaction blocks commit everything on success and nothing on error
// or panic. Trees of Transaction blocks with symbolic outcomes and a symbolic
// fault position over the database/sql boundary store, against a
// snapshot-stack reference model.

// block tree: each node has steps; a step is a write or a child block.
type c04Node struct {
	name  string
	steps []c04Step
}
type c04Step struct {
	child *c04Node
}

func c04Trees(tier int) []*c04Node {
	w := c04Step{}
	leaf := func(n string) *c04Node { return &c04Node{name: n, steps: []c04Step{w}} }
	trees := []*c04Node{
		// single block
		{name: "a", steps: []c04Step{w, w}},
		// one nested child between writes
		{name: "a", steps: []c04Step{w, {child: leaf("b")}, w}},
		// two sibling children
		{name: "a", steps: []c04Step{w, {child: leaf("b")}, {child: leaf("c")}, w}},
		// depth 3 chain
		{name: "a", steps: []c04Step{w, {child: &c04Node{name: "b", steps: []c04Step{w, {child: leaf("c")}, w}}}, w}},
	}
	if tier > 0 {
		trees = append(trees,
			// depth 4 chain
			&c04Node{name: "a", steps: []c04Step{w, {child: &c04Node{name: "b", steps: []c04Step{w, {child: &c04Node{name: "c", steps: []c04Step{w, {child: leaf("d")}}}}, w}}}, w}},
			// child with two grandchildren
			&c04Node{name: "a", steps: []c04Step{{child: &c04Node{name: "b", steps: []c04Step{{child: leaf("c")}, w, {child: leaf("d")}}}}, w}},
		)
	}
	return trees
}

type c04Cfg struct {
	tree          int
	prepare       bool
	disableNested bool
	skipDefault   bool
	create        bool // writes through Create (implicit transaction callbacks) instead of Exec
	derive        int  // handle derivation applied inside blocks before each write (c04Derive)
	sameHandle    bool // a nested block starts its own children on the handle it was started on itself (a stored handle), not on the handle passed to its callback
}

// c04Derive: how the block derives the handle it writes through.
func c04Derive(tx *gorm.DB, mode int) *gorm.DB {
	switch mode {
	case 1:
		return tx.Session(&gorm.Session{})
	case 2:
		return tx.Session(&gorm.Session{PrepareStmt: true})
	case 3:
		return tx.WithContext(tagCtx(5))
	case 4:
		return tx.Session(&gorm.Session{NewDB: true})
	}
	return tx
}

func c04Shapes(tier int) []c04Cfg {
	var r []c04Cfg
	ntrees := len(c04Trees(tier))
	if tier == 0 {
		// quick: configurations crossed on the trees without the depth-3 chain,
		// derivations crossed with PrepareStmt on the one-child tree
		for t := 0; t < 3; t++ {
			for m := 0; m < 4; m++ {
				for w := 0; w < 3; w++ {
					r = append(r, c04Cfg{tree: t, prepare: m&1 != 0, disableNested: m&2 != 0, create: w > 0, skipDefault: w == 2})
				}
			}
		}
		for d := 1; d <= 4; d++ {
			for m := 0; m < 4; m++ {
				r = append(r, c04Cfg{tree: 1, prepare: m&1 != 0, create: m&2 != 0, derive: d})
			}
		}
		r = append(r, c04Cfg{tree: 3}, c04Cfg{tree: 3, prepare: true, create: true})
		r = append(r, c04Cfg{tree: 3, sameHandle: true}, c04Cfg{tree: 3, prepare: true, sameHandle: true})
		return r
	}
	for t := 0; t < ntrees; t++ {
		for m := 0; m < 4; m++ {
			for w := 0; w < 3; w++ {
				for d := 0; d <= 4; d++ {
					r = append(r, c04Cfg{tree: t, prepare: m&1 != 0, disableNested: m&2 != 0, create: w > 0, skipDefault: w == 2, derive: d})
				}
			}
		}
	}
	for t := 3; t < ntrees; t++ {
		r = append(r, c04Cfg{tree: t, sameHandle: true}, c04Cfg{tree: t, prepare: true, sameHandle: true}, c04Cfg{tree: t, create: true, sameHandle: true})
	}
	return r
}

func N_C04_Tree(tier int) int { return len(c04Shapes(tier)) }

var errBlock = errors.New("verif: block error")

type c04PanicVal struct{ n int }

type c04Ref struct {
	cur []int // tokens visible in the open transaction
}

func H_C04_Tree(shape int) {
	tier := 1
	memo := func(t int) []c04Cfg {
		return verifrt.Memo("c04Shapes"+string([]byte{byte('0' + t)}), func() interface{} { return c04Shapes(t) }).([]c04Cfg)
	}
	if shape < len(memo(0)) {
		tier = 0
	}
	cfg := memo(tier)[shape]
	tree := c04Trees(tier)[cfg.tree]
	s := NewStore()
	db := openReal(stubDialector{}, s, &gorm.Config{PrepareStmt: cfg.prepare, DisableNestedTransaction: cfg.disableNested, SkipDefaultTransaction: cfg.skipDefault})
	s.FaultAt = verifrt.Intn("fault_at", 0, 14)
	ref := &c04Ref{}
	thrown := &c04PanicVal{7}

	write := func(tx *gorm.DB) error {
		before := s.nextTok
		var err error
		tx = c04Derive(tx, cfg.derive)
		if cfg.create {
			err = tx.Create(&Item{Name: "w"}).Error
		} else {
			err = tx.Exec("INSERT INTO w VALUES (?)", 1).Error
		}
		if err == nil {
			verifrt.Assert(s.nextTok == before+1, "C04.one-write-per-statement")
			ref.cur = append(ref.cur, s.nextTok)
		}
		return err
	}

	var run func(n *c04Node, tx *gorm.DB, top bool) error
	run = func(n *c04Node, tx *gorm.DB, top bool) error {
		mark := len(ref.cur)
		entered := false
		var err error
		func() {
			// a failing nested block undoes exactly its own writes (unless nesting is disabled)
			defer func() {
				if r := recover(); r != nil {
					if entered && !top && !cfg.disableNested {
						ref.cur = ref.cur[:mark:mark]
					}
					panic(r)
				}
			}()
			err = tx.Transaction(func(tx2 *gorm.DB) error {
				entered = true
				for _, st := range n.steps {
					if st.child == nil {
						if e := write(tx2); e != nil {
							return e
						}
						continue
					}
					// the parent may recover a child's panic, and may ignore a child's error
					var cerr error
					recovered := false
					func() {
						if verifrt.Bool(n.name + "_recovers") {
							defer func() {
								if r := recover(); r != nil {
									recovered = true
									verifrt.Assert(r == interface{}(thrown), "C04.panic-value")
								}
							}()
						}
						childTx := tx2
						if cfg.sameHandle && !top {
							childTx = tx // the handle this block was started on: still inside the same transaction
						}
						cerr = run(st.child, childTx, false)
					}()
					if cerr != nil && !recovered && verifrt.Bool(n.name+"_propagates") {
						return cerr
					}
				}
				switch verifrt.Concretize(verifrt.Intn(n.name+"_outcome", 0, 2), 0, 2) {
				case 1:
					return errBlock
				case 2:
					panic(thrown)
				}
				return nil
			})
		}()
		if err != nil && entered && !top && !cfg.disableNested {
			ref.cur = ref.cur[:mark:mark]
		}
		if err != nil && !entered {
			// BEGIN / SAVEPOINT failed: the block never ran
			verifrt.Assert(len(ref.cur) == mark, "C04.ref")
		}
		return err
	}

	// the same statement text may already have run outside any transaction
	// (it is then in the prepared statement cache as a pool-level statement)
	var base []int
	if cfg.prepare && !cfg.create && verifrt.Bool("warm") {
		if write(db) == nil {
			base = append(base, ref.cur...)
		}
		ref.cur = nil
	}
	var err error
	var pv interface{}
	func() {
		defer func() { pv = recover() }()
		err = run(tree, db, true)
	}()
	verifrt.Reach("outermost-returned")
	verifrt.Observe("err", err)
	verifrt.Observe("panicked", pv != nil)
	verifrt.Observe("log", s.Kinds())
	verifrt.Observe("durable", s.Durable)

	// reference: everything visible at the end is durable iff the outermost block succeeded
	want := append([]int{}, base...)
	if err == nil && pv == nil {
		want = append(want, ref.cur...)
	}
	verifrt.Assert(len(s.Durable) == len(want), "C04.durable")
	for i := range want {
		if i < len(s.Durable) {
			verifrt.Assert(s.Durable[i] == want[i], "C04.durable")
		}
	}
	// the transaction is finished and the connection is back in the pool
	verifrt.Assert(s.OpenTx() == 0, "C04.finished")
	verifrt.Assert(PoolInUse(dbPool(db)) == 0, "C04.pool")
	// propagation: a panic reaches the caller unchanged; an error is the block's error or the injected fault
	if pv != nil {
		verifrt.Assert(pv == interface{}(thrown), "C04.panic-propagation")
	}
	if err != nil {
		verifrt.Assert(verifrt.Or(errors.Is(err, errBlock), errors.Is(err, errInjected)), "C04.error-propagation")
	}
	fired := s.FaultAt != 0 && s.Calls() >= s.FaultAt
	if !fired && err != nil {
		verifrt.Assert(errors.Is(err, errBlock), "C04.spurious-error")
	}
}

// ---- manual Begin … SavePoint / RollbackTo / writes … Commit | Rollback

// shapes: (sequence of 3 (thorough: 4) operations out of 5 kinds) x PrepareStmt x write kind
func N_C04_Manual(tier int) int {
	if tier > 0 {
		return 2*125 + 4*625
	}
	return 2 * 125
}

func H_C04_Manual(shape int) {
	nops, nseq := 3, 125
	if shape >= 2*125 {
		// thorough-only shapes are numbered after the quick ones
		shape -= 2 * 125
		nops, nseq = 4, 625
	}
	prepare := (shape/nseq)&1 != 0
	create := (shape/nseq)&2 != 0
	seq := shape % nseq
	kinds := make([]int, nops)
	for k := range kinds {
		kinds[k] = seq % 5
		seq /= 5
	}
	s := NewStore()
	db := openReal(stubDialector{}, s, &gorm.Config{PrepareStmt: prepare})
	s.FaultAt = verifrt.Intn("fault_at", 0, 8)
	tx := db.Begin()
	if tx.Error != nil {
		verifrt.Assert(errors.Is(tx.Error, errInjected), "C04.begin-error")
		verifrt.Assert(s.OpenTx() == 0 && len(s.Durable) == 0, "C04.begin-failed-state")
		return
	}
	var cur []int             // tokens written so far in the transaction
	saves := map[string]int{} // save point -> number of writes at that time
	order := []string{}
	for k := 0; k < nops; k++ {
		switch kinds[k] {
		case 0: // write
			before := s.nextTok
			var err error
			if create {
				err = tx.Create(&Item{Name: "w"}).Error
			} else {
				err = tx.Exec("INSERT INTO w VALUES (?)", k).Error
			}
			if err == nil {
				verifrt.Assert(s.nextTok == before+1, "C04.one-write-per-statement")
				cur = append(cur, s.nextTok)
			}
		case 1, 2:
			name := []string{"", "spa", "spb"}[kinds[k]]
			if tx.SavePoint(name).Error == nil {
				saves[name] = len(cur)
				order = append(order, name)
			}
			tx.Error = nil
		case 3, 4:
			name := []string{"", "spa", "spb"}[kinds[k]-2]
			err := tx.RollbackTo(name).Error
			tx.Error = nil
			if n, ok := saves[name]; ok {
				verifrt.Assert(err == nil, "C04.rollback-to-error")
				// exactly the writes made after the save point are undone; later save points are gone
				cur = cur[:n:n]
				for len(order) > 0 && order[len(order)-1] != name {
					delete(saves, order[len(order)-1])
					order = order[:len(order)-1]
				}
			} else {
				verifrt.Assert(err != nil, "C04.rollback-to-unknown-savepoint")
			}
		}
	}
	commit := verifrt.Bool("commit")
	var err error
	if commit {
		err = tx.Commit().Error
	} else {
		err = tx.Rollback().Error
	}
	verifrt.Reach("finished")
	verifrt.Observe("log", s.Kinds())
	verifrt.Observe("durable", s.Durable)
	var want []int
	if commit && err == nil {
		want = cur
	}
	verifrt.Assert(len(s.Durable) == len(want), "C04.durable")
	for i := range want {
		if i < len(s.Durable) {
			verifrt.Assert(s.Durable[i] == want[i], "C04.durable")
		}
	}
	if !commit {
		verifrt.Assert(err == nil, "C04.rollback-error")
	}
	if err != nil {
		verifrt.Assert(errors.Is(err, errInjected), "C04.error-propagation")
	}
	verifrt.Assert(s.OpenTx() == 0, "C04.finished")
	verifrt.Assert(PoolInUse(dbPool(db)) == 0, "C04.pool")
}

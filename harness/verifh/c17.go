package verifh

import (
	"gorm.io/gorm"
	"gorm.io/gorm/internal/verifrt"
)

// C17 — callback registration honours Before/After and never disturbs the
// built-in order. Shapes: pipeline (6) x number of operations.

var c17Pipelines = []string{"create", "query", "update", "delete", "row", "raw"}

func c17Shapes(tier int) [][2]int {
	maxOps := 2
	if tier > 0 {
		maxOps = 3
	}
	var s [][2]int
	for p := range c17Pipelines {
		for n := 1; n <= maxOps; n++ {
			s = append(s, [2]int{p, n})
		}
	}
	return s
}

func N_C17_Register(tier int) int { return len(c17Shapes(tier)) }

func c17Processor(db *gorm.DB, i int) *gorm.VerifProcessor {
	switch c17Pipelines[i] {
	case "create":
		return db.Callback().Create()
	case "query":
		return db.Callback().Query()
	case "update":
		return db.Callback().Update()
	case "delete":
		return db.Callback().Delete()
	case "row":
		return db.Callback().Row()
	}
	return db.Callback().Raw()
}

type c17Op struct {
	kind    int // 0 Register, 1 Before(x).Register, 2 After(x).Register, 3 Replace, 4 Remove, 5 Before(x).After(y).Register, 6 Before(x).Replace, 7 After(x).Replace
	name    string
	anchor  string
	anchor2 string // After anchor of kind 5
}

func indexOf(xs []string, s string) int {
	for i := range xs {
		if xs[i] == s {
			return i
		}
	}
	return -1
}

func countOf(xs []string, s string) int {
	n := 0
	for i := range xs {
		if xs[i] == s {
			n++
		}
	}
	return n
}

// c17Name picks a symbolic callback name: a 1-byte name over {a,b,c} (and '*'
// when star is allowed) or one of the built-in names.
func c17Name(tag string, builtins []string, star bool) string {
	if verifrt.Bool(tag + "_builtin") {
		i := verifrt.Intn(tag+"_idx", 0, len(builtins)-1)
		return builtins[i]
	}
	b := verifrt.Byte(tag + "_chr")
	if star {
		verifrt.Assume(verifrt.Or(verifrt.Or(b == 'a', b == 'b'), verifrt.Or(b == 'c', b == '*')))
	} else {
		verifrt.Assume(verifrt.Or(verifrt.Or(b == 'a', b == 'b'), b == 'c'))
	}
	return string([]byte{b})
}

// c17Describe classifies an operation for the violation signature: kind,
// class of the name and of the anchor (builtin / fresh / same as operation j).
func c17Describe(op c17Op, prev []c17Op, base []string) string {
	cls := func(n string) string {
		if n == "*" {
			return "*"
		}
		for j := len(prev) - 1; j >= 0; j-- {
			if prev[j].name == n {
				return "op" + string([]byte{byte('0' + j)})
			}
		}
		if indexOf(base, n) >= 0 {
			return "builtin"
		}
		return "fresh"
	}
	k := []string{"Register", "Before", "After", "Replace", "Remove", "BeforeAfter", "BeforeReplace", "AfterReplace"}[op.kind]
	if op.kind == 1 || op.kind == 2 || op.kind == 6 || op.kind == 7 {
		return k + "(" + cls(op.anchor) + ")." + cls(op.name)
	}
	if op.kind == 5 {
		return k + "(" + cls(op.anchor) + "," + cls(op.anchor2) + ")." + cls(op.name)
	}
	return k + "." + cls(op.name)
}

func H_C17_Register(shape int) {
	shapes := c17Shapes(1)
	if shape < len(c17Shapes(0)) {
		shapes = c17Shapes(0)
	}
	pi, nops := shapes[shape][0], shapes[shape][1]
	db := openDry(stubDialector{})
	var log []string
	gen := 0
	mk := func(name string) func(*gorm.DB) {
		return func(*gorm.DB) { log = append(log, name) }
	}
	p, err := gorm.VerifCloneProcessor(c17Processor(db, pi), mk)
	verifrt.Assert(err == nil, "C17.defaults-compile")
	gorm.VerifRunFns(p, db)
	base := append([]string{}, log...)
	builtins := gorm.VerifCallbackNames(p)
	for i := range builtins {
		verifrt.Assert(countOf(base, builtins[i]) == 1, "C17.builtin-once")
	}
	if len(builtins) == 0 {
		builtins = []string{"gorm:none"}
	}

	live := append([]string{}, base...) // names expected to fire
	var moved []string                  // built-in names removed and registered again: position unspecified
	var ops []c17Op
	starBefore, starAfter := false, false
	failed := false
	for k := 0; k < nops; k++ {
		tag := "op" + string([]byte{byte('0' + k)})
		kind := verifrt.Intn(tag+"_kind", 0, 7)
		kind = verifrt.Concretize(kind, 0, 7)
		op := c17Op{kind: kind}
		op.name = c17Name(tag+"_name", builtins, false)
		gen++
		switch kind {
		case 0, 1, 2, 5:
			// a plain or positioned Register of a name that already exists is
			// excluded (gorm documents "duplicated callback", later handler wins)
			verifrt.Assume(indexOf(live, op.name) < 0)
			for j := range ops {
				// a name used by an earlier operation may only come back after its Remove
				if ops[j].kind != 4 {
					verifrt.Assume(ops[j].name != op.name)
				}
			}
			if kind == 5 {
				// Before(a built-in callback).After(a user callback, possibly registered later)
				op.anchor = builtins[verifrt.Intn(tag+"_anchor_idx", 0, len(builtins)-1)]
				b2 := verifrt.Byte(tag + "_anchor2_chr")
				verifrt.Assume(verifrt.Or(verifrt.Or(b2 == 'a', b2 == 'b'), b2 == 'c'))
				op.anchor2 = string([]byte{b2})
				verifrt.Assume(op.anchor != op.name)
				verifrt.Assume(op.anchor2 != op.name)
				verifrt.Assume(op.anchor2 != op.anchor)
			} else if kind != 0 {
				op.anchor = c17Name(tag+"_anchor", builtins, true)
				verifrt.Assume(op.anchor != op.name)
				if op.anchor == "*" {
					if kind == 1 {
						verifrt.Assume(!starBefore)
						starBefore = true
					} else {
						verifrt.Assume(!starAfter)
						starAfter = true
					}
				}
			}
		}
		if kind == 6 || kind == 7 {
			// a positioned Replace: the replacement takes the replaced callback's
			// position and asks for a side of a named callback ('*' is not offered here)
			op.anchor = c17Name(tag+"_anchor", builtins, false)
			verifrt.Assume(op.anchor != op.name)
			// the named callback exists at that time (forward references are explored
			// with the Register forms, kinds 1, 2 and 5)
			verifrt.Assume(indexOf(live, op.anchor) >= 0 || indexOf(live, op.anchor+"!") >= 0)
		}
		verifrt.Tag(c17Describe(op, ops, base))
		var e error
		switch kind {
		case 0:
			e = p.Register(op.name, mk(op.name))
		case 1:
			e = p.Before(op.anchor).Register(op.name, mk(op.name))
		case 2:
			e = p.After(op.anchor).Register(op.name, mk(op.name))
		case 3:
			e = p.Replace(op.name, mk(op.name+"!"))
		case 4:
			e = p.Remove(op.name)
		case 5:
			e = p.Before(op.anchor).After(op.anchor2).Register(op.name, mk(op.name))
		case 6:
			e = p.Before(op.anchor).Replace(op.name, mk(op.name+"!"))
		case 7:
			e = p.After(op.anchor).Replace(op.name, mk(op.name+"!"))
		}
		if e != nil {
			failed = true
			break
		}
		ops = append(ops, op)
		switch kind {
		case 0, 1, 2, 5:
			live = append(live, op.name)
		case 3, 6, 7:
			if i := indexOf(live, op.name); i >= 0 {
				live[i] = op.name + "!"
			} else if j := indexOf(live, op.name+"!"); j < 0 {
				live = append(live, op.name+"!")
				moved = append(moved, op.name)
			}
		case 4:
			if i := indexOf(live, op.name); i >= 0 {
				live = append(live[:i:i], live[i+1:]...)
			} else if j := indexOf(live, op.name+"!"); j >= 0 {
				live = append(live[:j:j], live[j+1:]...)
			}
			if indexOf(base, op.name) >= 0 {
				moved = append(moved, op.name) // a built-in that is removed and registered again has no original position
			}
		}
	}
	verifrt.Reach("ops-applied")
	if failed {
		// "either an error is returned, or ..." — nothing more is claimed
		verifrt.Reach("error-returned")
		return
	}
	log = nil
	gorm.VerifRunFns(p, db)
	verifrt.Observe("log", log)
	// every registered, non-removed callback fires exactly once; nothing else fires
	for i := range live {
		verifrt.Assert(countOf(log, live[i]) == 1, "C17.once")
	}
	verifrt.Assert(len(log) == len(live), "C17.extra")
	// built-ins keep their original relative order (a replaced one counts at its position)
	strip := func(s string) string {
		if len(s) > 0 && s[len(s)-1] == '!' {
			return s[:len(s)-1]
		}
		return s
	}
	var gotBuiltin []string
	for i := range log {
		if indexOf(base, strip(log[i])) >= 0 && indexOf(moved, strip(log[i])) < 0 {
			gotBuiltin = append(gotBuiltin, strip(log[i]))
		}
	}
	var wantBuiltin []string
	for i := range base {
		if (indexOf(live, base[i]) >= 0 || indexOf(live, base[i]+"!") >= 0) && indexOf(moved, base[i]) < 0 {
			wantBuiltin = append(wantBuiltin, base[i])
		}
	}
	verifrt.Assert(len(gotBuiltin) == len(wantBuiltin), "C17.builtin-order")
	for i := range wantBuiltin {
		if i < len(gotBuiltin) {
			verifrt.Assert(gotBuiltin[i] == wantBuiltin[i], "C17.builtin-order")
		}
	}
	// each on the requested side of the callback it names, when that fires
	pos := func(n string) int {
		if i := indexOf(log, n); i >= 0 {
			return i
		}
		return indexOf(log, n+"!")
	}
	for oi, op := range ops {
		// a registration that was removed later makes no request any more (a later
		// Replace or Register of the same name is a new registration of its own)
		gone := false
		for _, later := range ops[oi+1:] {
			if later.kind == 4 && later.name == op.name {
				gone = true
			}
		}
		if gone {
			continue
		}
		if op.kind == 5 {
			me := pos(op.name)
			if me < 0 {
				continue
			}
			if a := pos(op.anchor); a >= 0 {
				verifrt.Assert(me < a, "C17.before")
			}
			if a := pos(op.anchor2); a >= 0 {
				verifrt.Assert(me > a, "C17.after")
			}
			continue
		}
		if op.kind != 1 && op.kind != 2 && op.kind != 6 && op.kind != 7 {
			continue
		}
		me := pos(op.name)
		if me < 0 {
			continue // removed later
		}
		if op.anchor == "*" {
			// '*' is read as "every built-in callback" (another user callback may
			// legitimately be asked to run beyond it)
			for i := range log {
				if indexOf(gotBuiltin, strip(log[i])) < 0 {
					continue
				}
				if op.kind == 1 {
					verifrt.Assert(me < i, "C17.before-star")
				} else {
					verifrt.Assert(me > i, "C17.after-star")
				}
			}
			continue
		}
		a := pos(op.anchor)
		if a < 0 {
			continue
		}
		if op.kind == 1 || op.kind == 6 {
			verifrt.Assert(me < a, "C17.before")
		} else {
			verifrt.Assert(me > a, "C17.after")
		}
	}
}

// ---- a second Open that reuses the first handle's Config must not touch the first handle's pipelines

func N_C17_Reopen(tier int) int { return len(c17Pipelines) }

func H_C17_Reopen(shape int) {
	db1 := openDry(stubDialector{})
	var log []string
	mk := func(name string) func(*gorm.DB) {
		return func(*gorm.DB) { log = append(log, name) }
	}
	p := c17Processor(db1, shape)
	names := gorm.VerifCallbackNames(p)
	if len(names) == 0 {
		return
	}
	// replace every built-in by a logging handler, remove the first one, add one of our own
	for _, n := range names {
		verifrt.Assert(p.Replace(n, mk(n)) == nil, "C17.replace-error")
	}
	verifrt.Assert(p.Remove(names[0]) == nil, "C17.remove-error")
	verifrt.Assert(p.Register("mine", mk("mine")) == nil, "C17.register-error")
	gorm.VerifRunFns(p, db1)
	before := append([]string{}, log...)
	// open a second handle from the first one's configuration
	db2, err := gorm.Open(stubDialector{}, db1.Config)
	verifrt.Assert(err == nil && db2 != nil, "C17.reopen-error")
	log = nil
	gorm.VerifRunFns(c17Processor(db1, shape), db1)
	verifrt.Observe("before", before)
	verifrt.Observe("after", log)
	verifrt.Assert(len(log) == len(before), "C17.reopen-changed-pipeline")
	for i := range before {
		if i < len(log) {
			verifrt.Assert(log[i] == before[i], "C17.reopen-changed-pipeline")
		}
	}
}

// ---- many plugin callbacks on one pipeline (more than a dozen entries in all):
// eight plain registrations plus one Before("*") / After("*") registration at a
// symbolic position. Every callback fires once, the built-ins keep their order,
// the '*' one is first / last
// among the built-ins.

func N_C17_Many(tier int) int { return len(c17Pipelines) }

func H_C17_Many(shape int) {
	db := openDry(stubDialector{})
	var log []string
	mk := func(name string) func(*gorm.DB) {
		return func(*gorm.DB) { log = append(log, name) }
	}
	p, err := gorm.VerifCloneProcessor(c17Processor(db, shape), mk)
	verifrt.Assert(err == nil, "C17.defaults-compile")
	gorm.VerifRunFns(p, db)
	base := append([]string{}, log...)
	star := verifrt.Concretize(verifrt.Intn("star_at", 0, 8), 0, 8)
	before := verifrt.Bool("star_before")
	// every (pipeline, position, side) is a violation signature of its own: the
	// real sort.Slice misbehaves only for some lengths and patterns
	verifrt.Tag(c17Pipelines[shape] + ".star" + string([]byte{byte('0' + star)}))
	if before {
		verifrt.Tag("before")
	}
	plugins := []string{"p0", "p1", "p2", "p3", "p4", "p5", "p6", "p7", "p8"}
	for i, n := range plugins {
		var e error
		switch {
		case i == star && before:
			e = p.Before("*").Register(n, mk(n))
		case i == star:
			e = p.After("*").Register(n, mk(n))
		default:
			e = p.Register(n, mk(n))
		}
		verifrt.Assert(e == nil, "C17.register-error")
	}
	log = nil
	gorm.VerifRunFns(p, db)
	verifrt.Observe("log", log)
	verifrt.Assert(len(log) == len(base)+len(plugins), "C17.extra")
	for _, n := range append(append([]string{}, base...), plugins...) {
		verifrt.Assert(countOf(log, n) == 1, "C17.once")
	}
	// built-ins in their original relative order
	last := -1
	for _, n := range base {
		i := indexOf(log, n)
		verifrt.Assert(i > last, "C17.builtin-order")
		last = i
	}
	// the '*' callback on the requested side of every built-in
	me := indexOf(log, plugins[star])
	for _, n := range base {
		if before {
			verifrt.Assert(me < indexOf(log, n), "C17.before-star")
		} else {
			verifrt.Assert(me > indexOf(log, n), "C17.after-star")
		}
	}
}

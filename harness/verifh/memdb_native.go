//go:build !verifsym

package verifh

import (
	"encoding/json"
	"fmt"
	"os"
	"path/filepath"
	"sync/atomic"
)

var memDumpN int32

// Dump writes the statement trace of this run (initial tables, statements with
// their results, final tables) for /verif/sqlcheck, when VERIF_SQLTRACE_DIR is set.
func (m *MemDB) Dump(label string) {
	dir := os.Getenv("VERIF_SQLTRACE_DIR")
	if dir == "" {
		return
	}
	tr := []map[string]interface{}{{"label": label, "initial": m.init, "stmts": m.trace, "final": m.snap()}}
	b, err := json.Marshal(tr)
	if err != nil {
		return
	}
	n := atomic.AddInt32(&memDumpN, 1)
	os.WriteFile(filepath.Join(dir, fmt.Sprintf("trace-%d-%d.json", os.Getpid(), n)), b, 0o644)
}

package verifh

import (
	"context"
	"database/sql/driver"

	"gorm.io/gorm"
	"gorm.io/gorm/clause"
	"gorm.io/gorm/internal/verifrt"
)

// C18 — every statement of an operation carries the caller's context. The
// context carries a symbolic tag; the store records the tag of every boundary
// call (BEGIN, PREPARE, EXEC, QUERY).

type c18Case struct {
	name string
	run  func(db *gorm.DB)
}

func c18Rows(text string) RowSet {
	switch {
	case hasPrefix(text, "SELECT * FROM `owners`"):
		return RowSet{Cols: []string{"id", "name", "companyid"}, Rows: [][]driver.Value{{int64(1), "o1", int64(5)}, {int64(2), "o2", nil}}}
	case hasPrefix(text, "SELECT * FROM `pets`"):
		return RowSet{Cols: []string{"id", "ownerid", "name"}, Rows: [][]driver.Value{{int64(7), int64(1), "p"}}}
	case hasPrefix(text, "SELECT * FROM `companys`"):
		return RowSet{Cols: []string{"id", "name"}, Rows: [][]driver.Value{{int64(5), "c"}}}
	case hasPrefix(text, "SELECT * FROM `profiles`"):
		return RowSet{Cols: []string{"id", "ownerid", "bio"}, Rows: [][]driver.Value{{int64(3), int64(2), "b"}}}
	case hasPrefix(text, "SELECT * FROM `items` WHERE `items`.`id` > "):
		return RowSet{Cols: []string{"id", "name", "age", "score"}} // second batch: empty
	case hasPrefix(text, "SELECT * FROM `items`"):
		return RowSet{Cols: []string{"id", "name", "age", "score"}, Rows: [][]driver.Value{{int64(1), "a", int64(1), int64(1)}, {int64(2), "b", int64(2), int64(2)}}}
	case hasPrefix(text, "SELECT count(*)"):
		return RowSet{Cols: []string{"count(*)"}, Rows: [][]driver.Value{{int64(2)}}}
	}
	return RowSet{}
}

func c18Cases() []c18Case {
	return []c18Case{
		{"create-assoc", func(db *gorm.DB) {
			db.Create(&Owner{Name: "o", Company: &Company{Name: "c"}, Profile: Profile{Bio: "b"}, Pets: []Pet{{Name: "p"}}})
		}},
		{"create-many2many", func(db *gorm.DB) {
			db.Create(&Speaker{Name: "s", Langs: []Lang{{Name: "go"}}})
			db.Select("Langs").Delete(&Speaker{ID: 3})
		}},
		{"create-batches", func(db *gorm.DB) { db.CreateInBatches(&[]Item{{Name: "a"}, {Name: "b"}, {Name: "c"}}, 2) }},
		{"save-upsert", func(db *gorm.DB) { db.Save(&Item{ID: 3, Name: "a"}) }},
		{"update-hooks", func(db *gorm.DB) { db.Model(&HRec{ID: 3, Name: "r"}).Updates(map[string]interface{}{"val": 2}) }},
		{"delete-assoc", func(db *gorm.DB) { db.Select(clause.Associations).Delete(&HRec{ID: 3, Name: "r"}) }},
		{"delete-soft", func(db *gorm.DB) { db.Delete(&Doc{ID: 3}) }},
		{"find-preload", func(db *gorm.DB) {
			var os []Owner
			db.Preload("Pets").Preload("Company").Preload("Profile").Find(&os)
		}},
		{"find-preload-all", func(db *gorm.DB) {
			var os []Owner
			db.Preload(clause.Associations).Find(&os)
		}},
		{"find-joins", func(db *gorm.DB) {
			var os []Owner
			db.Joins("Company").Find(&os)
		}},
		{"first-count-pluck", func(db *gorm.DB) {
			var it Item
			db.First(&it)
			var n int64
			db.Model(&Item{}).Count(&n)
			var names []string
			db.Model(&Item{}).Pluck("name", &names)
		}},
		{"find-in-batches", func(db *gorm.DB) {
			var its []Item
			db.FindInBatches(&its, 2, func(tx *gorm.DB, batch int) error { return nil })
		}},
		{"transaction-nested", func(db *gorm.DB) {
			db.Transaction(func(tx *gorm.DB) error {
				tx.Create(&Item{Name: "a"})
				return tx.Transaction(func(tx2 *gorm.DB) error {
					return tx2.Model(&Item{ID: 1}).Update("name", "b").Error
				})
			})
		}},
		{"transaction-nested-fails", func(db *gorm.DB) {
			db.Transaction(func(tx *gorm.DB) error {
				tx.Create(&Item{Name: "a"})
				tx.Transaction(func(tx2 *gorm.DB) error {
					tx2.Model(&Item{ID: 1}).Update("name", "b")
					return errBlock
				})
				func() {
					defer func() { recover() }()
					tx.Transaction(func(tx3 *gorm.DB) error { panic("boom") })
				}()
				return nil
			})
		}},
		// row-returning statements inside a transaction (in PrepareStmt mode they run
		// on the transaction's copy of the prepared statement)
		{"transaction-reads", func(db *gorm.DB) {
			db.Transaction(func(tx *gorm.DB) error {
				var it Item
				tx.First(&it)
				var n int64
				tx.Model(&Item{}).Count(&n)
				var os []Owner
				tx.Preload("Pets").Find(&os)
				func() {
					defer func() { recover() }()
					tx.Raw("SELECT count(*) FROM items").Row().Scan(&n)
				}()
				if rows, err := tx.Model(&Item{}).Rows(); err == nil {
					rows.Close()
				}
				return tx.Transaction(func(tx2 *gorm.DB) error {
					var its []Item
					return tx2.FindInBatches(&its, 2, func(*gorm.DB, int) error { return nil }).Error
				})
			})
		}},
		{"begin-reads-rollback", func(db *gorm.DB) {
			tx := db.Begin()
			var its []Item
			tx.Find(&its)
			var names []string
			tx.Model(&Item{}).Pluck("name", &names)
			var pets []Pet
			tx.Model(&Owner{ID: 1}).Association("Pets").Find(&pets)
			tx.Rollback()
		}},
		{"begin-commit", func(db *gorm.DB) {
			tx := db.Begin()
			tx.Exec("UPDATE items SET age = 1")
			tx.SavePoint("s")
			tx.RollbackTo("s")
			tx.Commit()
		}},
		{"raw-row-rows", func(db *gorm.DB) {
			var n int
			func() {
				// in PrepareStmt mode a failed preparation makes Row() return a zero
				// *sql.Row whose Scan dereferences nil (tracked under C14, not here)
				defer func() { recover() }()
				db.Raw("SELECT count(*) FROM items").Row().Scan(&n)
			}()
			rows, err := db.Model(&Item{}).Rows()
			if err == nil {
				rows.Close()
			}
			db.Exec("DELETE FROM items WHERE id = ?", 1)
		}},
		{"first-or-create", func(db *gorm.DB) {
			var c Company
			db.Where(Company{Name: "zz"}).FirstOrCreate(&c)
		}},
		{"association-mode", func(db *gorm.DB) {
			o := Owner{ID: 1}
			var pets []Pet
			db.Model(&o).Association("Pets").Find(&pets)
			db.Model(&o).Association("Pets").Append(&Pet{Name: "n"})
			db.Model(&o).Association("Pets").Count()
		}},
	}
}

func N_C18_Ctx(tier int) int { return 2 * len(c18Cases()) }

func H_C18_Ctx(shape int) {
	cs := c18Cases()
	c := cs[shape%len(cs)]
	prepare := shape >= len(cs)
	s := NewStore()
	s.OnQuery = func(text string, args []driver.Value) RowSet { return c18Rows(text) }
	next := int64(100)
	s.OnExec = func(text string, args []driver.Value) Result { next++; return Result{LastID: next, Affected: 1} }
	base := openReal(stubDialector{}, s, &gorm.Config{PrepareStmt: prepare})
	tag := verifrt.Intn("tag", 1, 1000)
	ctx := context.WithValue(context.Background(), ctxTagKey{}, tag)
	// the handles may be derived from a mid-chain handle (one returned by a chain
	// method): WithContext / Session{Context} start a session of their own there too
	viaMid := verifrt.Bool("via_mid")
	if viaMid {
		base = base.Set("verif:key", 1)
	}
	var db *gorm.DB
	if verifrt.Bool("via_session") {
		db = base.Session(&gorm.Session{Context: ctx})
	} else {
		db = base.WithContext(ctx)
	}
	cancelled := verifrt.Bool("cancelled")
	if cancelled {
		s.CtxCancel = tag
	}
	// sibling/child handles bound to another context are derived from the same
	// handle and used first: they carry their own context and must not re-bind db
	other := verifrt.Intn("other_tag", 1001, 2000)
	octx := context.WithValue(context.Background(), ctxTagKey{}, other)
	var child *gorm.DB
	switch verifrt.Concretize(verifrt.Intn("noise", 0, 4), 0, 4) {
	case 1:
		child = db.Session(&gorm.Session{NewDB: true, Context: octx})
	case 2:
		child = db.WithContext(octx)
	case 3:
		child = db.Session(&gorm.Session{Context: octx})
	case 4:
		child = db.Where("age > ?", 1).Session(&gorm.Session{Context: octx, NewDB: true})
	}
	if viaMid && child != nil {
		// a sibling bound to the other context, derived from the same mid-chain handle
		child = base.WithContext(octx)
	}
	if child != nil {
		var probe Item
		child.First(&probe)
	}
	mark := len(s.Log)
	for _, e := range s.Log {
		switch e.Kind {
		case "BEGIN", "PREPARE", "EXEC", "QUERY":
			verifrt.Assert(e.Ctx == other, "C18.child-context:"+e.Kind)
		}
	}
	hooks = &hookCtl{}
	c.run(db)
	verifrt.Reach("ran")
	verifrt.Observe("log", s.Kinds())
	n := 0
	for _, e := range s.Log[mark:] {
		switch e.Kind {
		case "BEGIN", "PREPARE", "EXEC", "QUERY":
			n++
			verifrt.Assert(e.Ctx == tag, "C18.wrong-context:"+e.Kind)
			if cancelled {
				verifrt.Assert(e.Fail, "C18.ran-when-cancelled")
			}
		}
	}
	verifrt.Assert(n >= 1, "C18.no-driver-call")
	if cancelled {
		verifrt.Assert(len(s.Durable) == 0, "C18.wrote-when-cancelled")
	}
}

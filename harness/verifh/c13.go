package verifh

import (
	"database/sql/driver"
	"errors"

	"gorm.io/gorm"
	"gorm.io/gorm/internal/verifrt"
)

// C13 — hooks run once per record, in documented order, in the operation's
// transaction.

type c13Case struct {
	name    string
	run     func(db *gorm.DB) *gorm.DB
	records []string                 // names of the in-memory records the hooks apply to
	phases  [][]string               // hook names per phase, "stmt" marks the statement
	prefix  string                   // hook name prefix of the records ("" or "Boss.")
	valAt   int                      // index of the bound Val argument in the main statement (-1: none)
	table   string                   // table of the records' statement when they are not the operation's own model
	batched bool                     // several main statements (CreateInBatches): hooks are not ordered around the first one
	query   func(text string) RowSet // rows per query text (nil: the records under test)
}

var (
	createPhases = [][]string{{"BeforeSave", "BeforeCreate"}, {"stmt"}, {"AfterCreate", "AfterSave"}}
	updatePhases = [][]string{{"BeforeSave", "BeforeUpdate"}, {"stmt"}, {"AfterUpdate", "AfterSave"}}
	deletePhases = [][]string{{"BeforeDelete"}, {"stmt"}, {"AfterDelete"}}
	findPhases   = [][]string{{"stmt"}, {"AfterFind"}}
)

func c13Recs(n int) []HRec {
	names := []string{"r1", "r2", "r3", "r4", "r5"}
	r := make([]HRec, n)
	for i := range r {
		r[i] = HRec{Name: names[i]}
	}
	return r
}

func c13Cases() []c13Case {
	var cs []c13Case
	names := []string{"r1", "r2", "r3", "r4", "r5"}
	// slices of up to 3 records in the quick tier, 5 in the thorough tier
	for n := 0; n <= 3+2*verifrt.Tier(); n++ {
		n := n
		cs = append(cs, c13Case{name: "create-values-" + string([]byte{byte('0' + n)}), records: names[:n], phases: createPhases, valAt: 1,
			run: func(db *gorm.DB) *gorm.DB { r := c13Recs(n); return db.Create(&r) }})
		cs = append(cs, c13Case{name: "create-pointers-" + string([]byte{byte('0' + n)}), records: names[:n], phases: createPhases, valAt: 1,
			run: func(db *gorm.DB) *gorm.DB {
				r := c13Recs(n)
				ps := make([]*HRec, n)
				for i := range r {
					ps[i] = &r[i]
				}
				return db.Create(&ps)
			}})
	}
	cs = append(cs,
		c13Case{name: "create-struct", records: names[:1], phases: createPhases, valAt: 1,
			run: func(db *gorm.DB) *gorm.DB { return db.Create(&HRec{Name: "r1"}) }},
		c13Case{name: "create-array", records: names[:2], phases: createPhases, valAt: 1,
			run: func(db *gorm.DB) *gorm.DB { a := [2]HRec{{Name: "r1"}, {Name: "r2"}}; return db.Create(&a) }},
		c13Case{name: "save-new", records: names[:1], phases: createPhases, valAt: 1,
			run: func(db *gorm.DB) *gorm.DB { return db.Save(&HRec{Name: "r1"}) }},
		c13Case{name: "save-existing", records: names[:1], phases: updatePhases, valAt: 1,
			run: func(db *gorm.DB) *gorm.DB { return db.Save(&HRec{ID: 4, Name: "r1"}) }},
		c13Case{name: "save-existing-upsert", records: names[:1], phases: updatePhases, valAt: 1,
			run: func(db *gorm.DB) *gorm.DB { return db.Save(&HRec{ID: 4, Name: "r1"}) }},
		c13Case{name: "updates-map", records: names[:1], phases: updatePhases, valAt: -1,
			run: func(db *gorm.DB) *gorm.DB {
				return db.Model(&HRec{ID: 4, Name: "r1"}).Updates(map[string]interface{}{"val": 2})
			}},
		c13Case{name: "updates-struct-self", records: names[:1], phases: updatePhases, valAt: -1,
			run: func(db *gorm.DB) *gorm.DB { return db.Updates(&HRec{ID: 4, Name: "r1"}) }},
		c13Case{name: "update-single", records: names[:1], phases: updatePhases, valAt: -1,
			run: func(db *gorm.DB) *gorm.DB { return db.Model(&HRec{ID: 4, Name: "r1"}).Update("val", 2) }},
		c13Case{name: "delete", records: names[:1], phases: deletePhases, valAt: -1,
			run: func(db *gorm.DB) *gorm.DB { return db.Delete(&HRec{ID: 4, Name: "r1"}) }},
		c13Case{name: "delete-slice", records: names[:2], phases: deletePhases, valAt: -1,
			run: func(db *gorm.DB) *gorm.DB { return db.Delete(&[]HRec{{ID: 4, Name: "r1"}, {ID: 5, Name: "r2"}}) }},
		c13Case{name: "find-slice", records: names[:3], phases: findPhases, valAt: -1,
			run: func(db *gorm.DB) *gorm.DB { var r []HRec; return db.Find(&r) }},
		c13Case{name: "find-pointer-slice", records: names[:3], phases: findPhases, valAt: -1,
			run: func(db *gorm.DB) *gorm.DB { var r []*HRec; return db.Find(&r) }},
		c13Case{name: "first", records: names[:1], phases: findPhases, valAt: -1,
			run: func(db *gorm.DB) *gorm.DB { var r HRec; return db.First(&r) }},
		c13Case{name: "create-shared-belongs-to", records: []string{"boss"}, phases: createPhases, prefix: "Boss.", valAt: -1, table: "hbosss",
			run: func(db *gorm.DB) *gorm.DB {
				b := &HBoss{ID: 9, Name: "boss"}
				return db.Create(&[]*HWorker{{Name: "w1", Boss: b}, {Name: "w2", Boss: b}, {Name: "w3", Boss: b}})
			}},
		c13Case{name: "create-shared-belongs-to-values", records: []string{"boss"}, phases: createPhases, prefix: "Boss.", valAt: -1, table: "hbosss",
			run: func(db *gorm.DB) *gorm.DB {
				b := &HBoss{ID: 9, Name: "boss"}
				return db.Create(&[]HWorker{{Name: "w1", Boss: b}, {Name: "w2", Boss: b}})
			}},
		// children holding a back-reference to the parent being created
		c13Case{name: "create-back-reference", records: []string{"i1", "i2"}, phases: createPhases, prefix: "Item.", valAt: -1, table: "hitems",
			run: func(db *gorm.DB) *gorm.DB {
				o := &HOrder{Name: "o"}
				o.Items = []*HItem{{Name: "i1", Order: o}, {Name: "i2", Order: o}}
				return db.Create(o)
			}},
		// a create split into batches is one operation: one transaction, hooks once per record
		c13Case{name: "create-in-batches", records: names[:3], phases: createPhases, valAt: -1, batched: true,
			run: func(db *gorm.DB) *gorm.DB { r := c13Recs(3); return db.CreateInBatches(&r, 2) }},
		c13Case{name: "create-batch-size-session", records: names[:3], phases: createPhases, valAt: -1, batched: true,
			run: func(db *gorm.DB) *gorm.DB {
				r := c13Recs(3)
				return db.Session(&gorm.Session{CreateBatchSize: 1}).Create(&r)
			}},
		// models defining exactly one hook: it fires once, whatever else the model lacks
		c13Case{name: "only-before-save", records: names[:1], phases: [][]string{{"BeforeSave"}, {"stmt"}}, valAt: -1, table: "honly1s",
			run: func(db *gorm.DB) *gorm.DB { return db.Create(&HOnly1{Name: "r1"}) }},
		c13Case{name: "only-before-create", records: names[:1], phases: [][]string{{"BeforeCreate"}, {"stmt"}}, valAt: -1, table: "honly2s",
			run: func(db *gorm.DB) *gorm.DB { return db.Create(&HOnly2{Name: "r1"}) }},
		c13Case{name: "only-after-create", records: names[:1], phases: [][]string{{"stmt"}, {"AfterCreate"}}, valAt: -1, table: "honly3s",
			run: func(db *gorm.DB) *gorm.DB { return db.Create(&HOnly3{Name: "r1"}) }},
		c13Case{name: "only-before-update", records: names[:1], phases: [][]string{{"BeforeUpdate"}, {"stmt"}}, valAt: -1, table: "honly4s",
			run: func(db *gorm.DB) *gorm.DB { return db.Model(&HOnly4{ID: 4, Name: "r1"}).Update("name", "r1") }},
		c13Case{name: "only-after-update", records: names[:1], phases: [][]string{{"stmt"}, {"AfterUpdate"}}, valAt: -1, table: "honly5s",
			run: func(db *gorm.DB) *gorm.DB { return db.Model(&HOnly5{ID: 4, Name: "r1"}).Update("name", "r1") }},
		c13Case{name: "only-after-save", records: names[:1], phases: [][]string{{"stmt"}, {"AfterSave"}}, valAt: -1, table: "honly6s",
			run: func(db *gorm.DB) *gorm.DB { return db.Model(&HOnly6{ID: 4, Name: "r1"}).Update("name", "r1") }},
		c13Case{name: "only-before-delete", records: names[:1], phases: [][]string{{"BeforeDelete"}, {"stmt"}}, valAt: -1, table: "honly7s",
			run: func(db *gorm.DB) *gorm.DB { return db.Delete(&HOnly7{ID: 4, Name: "r1"}) }},
		c13Case{name: "only-after-delete", records: names[:1], phases: [][]string{{"stmt"}, {"AfterDelete"}}, valAt: -1, table: "honly8s",
			run: func(db *gorm.DB) *gorm.DB { return db.Delete(&HOnly8{ID: 4, Name: "r1"}) }},
		c13Case{name: "only-after-find", records: names[:1], phases: [][]string{{"stmt"}, {"AfterFind"}}, valAt: -1, table: "honly9s",
			run: func(db *gorm.DB) *gorm.DB { var r []HOnly9; return db.Find(&r) }},
		// children loaded by Preload: AfterFind once per loaded child record
		c13Case{name: "find-preload-has-many", records: []string{"b1", "b2", "b3"}, phases: findPhases, prefix: "Book.", valAt: -1, table: "hbooks",
			query: c13ShelfRows,
			run:   func(db *gorm.DB) *gorm.DB { var r []HShelf; return db.Preload("Books").Find(&r) }},
		c13Case{name: "first-preload-has-many", records: []string{"b1", "b2", "b3"}, phases: findPhases, prefix: "Book.", valAt: -1, table: "hbooks",
			query: c13ShelfRows,
			run:   func(db *gorm.DB) *gorm.DB { var r HShelf; return db.Preload("Books").First(&r) }},
		c13Case{name: "find-preload-shared-belongs-to", records: []string{"b1", "b2"}, phases: findPhases, prefix: "Book.", valAt: -1, table: "hbooks",
			query: c13ShelfRows,
			run:   func(db *gorm.DB) *gorm.DB { var r []*HBookmark; return db.Preload("Book").Find(&r) }},
		c13Case{name: "skiphooks-create", records: nil, phases: nil, valAt: -1,
			run: func(db *gorm.DB) *gorm.DB {
				r := c13Recs(2)
				return db.Session(&gorm.Session{SkipHooks: true}).Create(&r)
			}},
		c13Case{name: "skiphooks-updates-delete-find", records: nil, phases: nil, valAt: -1,
			run: func(db *gorm.DB) *gorm.DB {
				tx := db.Session(&gorm.Session{SkipHooks: true})
				tx.Model(&HRec{ID: 4, Name: "r1"}).Updates(map[string]interface{}{"name": "zz"})
				tx.Delete(&HRec{ID: 4, Name: "r1"})
				var r []HRec
				return tx.Find(&r)
			}},
		c13Case{name: "update-column", records: nil, phases: nil, valAt: -1,
			run: func(db *gorm.DB) *gorm.DB { return db.Model(&HRec{ID: 4, Name: "r1"}).UpdateColumn("name", "zz") }},
		c13Case{name: "update-columns", records: nil, phases: nil, valAt: -1,
			run: func(db *gorm.DB) *gorm.DB {
				return db.Model(&HRec{ID: 4, Name: "r1"}).UpdateColumns(HRec{Name: "zz", Val: 3})
			}},
	)
	return cs
}

// c13ShelfRows answers the parent and child queries of the preload cases.
func c13ShelfRows(text string) RowSet {
	switch {
	case indexStr(text, "hbookmarks") >= 0:
		return RowSet{Cols: []string{"id", "bookid"}, Rows: [][]driver.Value{{int64(1), int64(1)}, {int64(2), int64(1)}, {int64(3), int64(2)}}}
	case indexStr(text, "hshelves") >= 0 || indexStr(text, "hshelfs") >= 0:
		return RowSet{Cols: []string{"id", "name"}, Rows: [][]driver.Value{{int64(1), "s1"}}}
	case indexStr(text, "IN (?,?)") >= 0: // the books of two bookmarks' keys
		return RowSet{Cols: []string{"id", "name", "shelfid"}, Rows: [][]driver.Value{{int64(1), "b1", int64(1)}, {int64(2), "b2", int64(1)}}}
	}
	return RowSet{Cols: []string{"id", "name", "shelfid"}, Rows: [][]driver.Value{{int64(1), "b1", int64(1)}, {int64(2), "b2", int64(1)}, {int64(3), "b3", int64(1)}}}
}

func N_C13_Hooks(tier int) int { return len(c13Cases()) }

func phaseOf(phases [][]string, hook string) int {
	for i, p := range phases {
		if hasStr(p, hook) {
			return i
		}
	}
	return -1
}

func H_C13_Hooks(shape int) {
	c := c13Cases()[shape]
	verifrt.Tag(c.name)
	s := NewStore()
	db := openReal(stubDialector{}, s, nil)
	hooks = &hookCtl{store: s}
	hooks.failAt = verifrt.Intn("hook_fail_at", 0, 13+8*verifrt.Tier())
	setVal := verifrt.Int("set_val")
	if c.valAt >= 0 {
		switch verifrt.Concretize(verifrt.Intn("set_mode", 0, 2), 0, 2) {
		case 1:
			hooks.setIn, hooks.setVal = c.phases[0][1], setVal // BeforeCreate / BeforeUpdate, direct assignment
		case 2:
			hooks.setIn, hooks.setVal, hooks.setCol = c.phases[0][1], setVal, true // via SetColumn
		}
	}
	next := int64(0)
	s.OnExec = func(text string, args []driver.Value) Result {
		next += 10
		if c.name == "save-existing-upsert" && hasPrefix(text, "UPDATE") {
			return Result{Affected: 0}
		}
		return Result{LastID: next, Affected: 1}
	}
	s.OnQuery = func(text string, args []driver.Value) RowSet {
		if c.query != nil {
			return c.query(text)
		}
		rs := RowSet{Cols: []string{"id", "name", "val"}}
		for i, n := range c.records {
			rs.Rows = append(rs.Rows, []driver.Value{int64(i + 1), n, int64(0)})
		}
		return rs
	}
	res := c.run(db)
	verifrt.Reach("ran")
	verifrt.Observe("err", res.Error)
	verifrt.Observe("hooks", hooks.events)
	verifrt.Observe("log", s.Kinds())
	ev := hooks.events
	if c.phases == nil {
		// SkipHooks sessions and the column-update methods run no hooks
		verifrt.Assert(len(ev) == 0, "C13.hooks-ran-when-skipped")
		return
	}
	failed := hooks.failAt != 0 && hooks.n >= hooks.failAt
	// position of the main statement in the store log
	stmtPos := -1
	for i, e := range s.Log {
		if (e.Kind == "EXEC" || e.Kind == "QUERY") && !hasPrefix(e.Text, "SAVEPOINT") && (c.table == "" || indexStr(e.Text, c.table) >= 0) {
			stmtPos = i
			break
		}
	}
	// only the hooks of the records under test (associations log their own prefix)
	var mine []int
	for i := range ev {
		h := ev[i]
		if c.prefix != "" {
			if hasPrefix(h, c.prefix) {
				mine = append(mine, i)
			}
		} else if !hasPrefix(h, "Kid.") && !hasPrefix(h, "Boss.") {
			mine = append(mine, i)
		}
	}
	name := func(i int) (string, string) { // hook, record
		h := ev[i][len(c.prefix):]
		for j := 0; j < len(h); j++ {
			if h[j] == ':' {
				return h[:j], h[j+1:]
			}
		}
		return h, ""
	}
	// every hook of a write ran on the operation's transaction handle
	if phaseOf(c.phases, "AfterFind") < 0 {
		for _, i := range mine {
			verifrt.Assert(hooks.inTx[i], "C13.hook-outside-transaction")
		}
	}
	if len(c.records) == 0 {
		// an empty slice: nothing to run hooks on (gorm reports ErrEmptySlice)
		verifrt.Assert(len(mine) == 0, "C13.hooks-on-empty-slice")
		return
	}
	if failed {
		verifrt.Assert(errors.Is(res.Error, errHook), "C13.hook-error-not-returned")
		// no later phase runs after the failing one
		fh, _ := name(hooks.failAt - 1)
		fp := -1
		if hooks.failAt-1 < len(ev) && (c.prefix == "" || hasPrefix(ev[hooks.failAt-1], c.prefix)) {
			fp = phaseOf(c.phases, fh)
		}
		if fp >= 0 {
			for _, i := range mine {
				if c.batched && i < hooks.failAt-1 {
					continue // earlier batches ran all their phases before the failure
				}
				h, _ := name(i)
				verifrt.Assert(phaseOf(c.phases, h) <= fp, "C13.phase-after-failure")
			}
			if fp == 0 && !c.batched {
				verifrt.Assert(stmtPos < 0, "C13.statement-after-failed-before-hook")
			}
		}
		verifrt.Assert(len(s.Durable) == 0, "C13.not-rolled-back")
		verifrt.Assert(s.OpenTx() == 0, "C13.tx-open")
		return
	}
	verifrt.Assert(res.Error == nil, "C13.error")
	// exactly once per record, per applicable hook
	for _, rec := range c.records {
		for _, ph := range c.phases {
			for _, h := range ph {
				if h == "stmt" {
					continue
				}
				cnt := 0
				for _, i := range mine {
					hh, rr := name(i)
					if hh == h && rr == rec {
						cnt++
					}
				}
				verifrt.Assert(cnt == 1, "C13.count:"+h)
			}
		}
	}
	want := 0
	for _, ph := range c.phases {
		for _, h := range ph {
			if h != "stmt" {
				want++
			}
		}
	}
	verifrt.Assert(len(mine) == want*len(c.records), "C13.extra-hooks")
	// documented order: per record, and around the statement
	for _, rec := range c.records {
		last := -1
		for _, ph := range c.phases {
			for _, h := range ph {
				if h == "stmt" {
					continue
				}
				for _, i := range mine {
					hh, rr := name(i)
					if hh == h && rr == rec {
						verifrt.Assert(i > last, "C13.order:"+h)
						last = i
					}
				}
			}
		}
	}
	if len(c.records) > 0 && !c.batched {
		verifrt.Assert(stmtPos >= 0, "C13.no-statement")
		sp := phaseOf(c.phases, "stmt")
		for _, i := range mine {
			h, _ := name(i)
			if phaseOf(c.phases, h) < sp {
				verifrt.Assert(hooks.logPos[i] <= stmtPos, "C13.before-hook-after-statement")
			} else {
				verifrt.Assert(hooks.logPos[i] > stmtPos, "C13.after-hook-before-statement")
			}
		}
	}
	// a value set by a before-hook is the value stored
	if hooks.setIn != "" && stmtPos >= 0 && len(c.records) > 0 {
		args := s.Log[stmtPos].Args
		per := len(args) / len(c.records)
		if hasPrefix(s.Log[stmtPos].Text, "UPDATE") {
			per = len(args)
		}
		verifrt.Assert(c.valAt < len(args), "C13.set-value-not-bound")
		for r := 0; r*per+c.valAt < len(args) && r < len(c.records); r++ {
			verifrt.Assert(verifrt.SameValue(args[r*per+c.valAt], int64(setVal)), "C13.before-hook-value-not-stored")
			if hasPrefix(s.Log[stmtPos].Text, "UPDATE") {
				break
			}
		}
	}
}

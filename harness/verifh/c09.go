package verifh

import (
	"errors"

	"gorm.io/gorm"
	"gorm.io/gorm/clause"
	"gorm.io/gorm/internal/verifrt"
)

// C09 — an Update or Delete without any condition never executes. Each case
// builds a chain from condition forms whose degeneracy is symbolic data and
// returns the result together with "eff": some supplied form is effective.

type c09Case struct {
	name string
	run  func(db *gorm.DB) (*gorm.DB, bool)
}

func symName(tag string) string {
	if verifrt.Bool(tag) {
		return "n"
	}
	return ""
}

func c09Cases() []c09Case {
	upd := map[string]interface{}{"name": "x"}
	return []c09Case{
		{"model-key.update", func(db *gorm.DB) (*gorm.DB, bool) {
			id := uint(verifrt.Intn("id", 0, 3))
			return db.Model(&Item{ID: id}).Update("name", "x"), id != 0
		}},
		{"model-key.updates-map.soft", func(db *gorm.DB) (*gorm.DB, bool) {
			id := uint(verifrt.Intn("id", 0, 3))
			return db.Model(&Doc{ID: id}).Updates(map[string]interface{}{"title": "x"}), id != 0
		}},
		{"where-struct.updates", func(db *gorm.DB) (*gorm.DB, bool) {
			age, nm := verifrt.Int("age"), symName("name")
			return db.Model(&Item{}).Where(Item{Name: nm, Age: age}).Updates(upd), age != 0 || nm != ""
		}},
		{"where-struct-ptr.update-column", func(db *gorm.DB) (*gorm.DB, bool) {
			age := verifrt.Int("age")
			return db.Model(&Item{}).Where(&Item{Age: age}).UpdateColumn("name", "x"), age != 0
		}},
		{"where-empty-string.delete", func(db *gorm.DB) (*gorm.DB, bool) {
			return db.Where("").Delete(&Item{}), false
		}},
		{"where-empty-map.delete.soft", func(db *gorm.DB) (*gorm.DB, bool) {
			return db.Where(map[string]interface{}{}).Delete(&Doc{}), false
		}},
		{"where-map.delete", func(db *gorm.DB) (*gorm.DB, bool) {
			return db.Where(map[string]interface{}{"age": verifrt.Int("age")}).Delete(&Item{}), true
		}},
		{"where-empty-slice.delete", func(db *gorm.DB) (*gorm.DB, bool) {
			return db.Where([]int{}).Delete(&Item{}), false
		}},
		{"where-slice.delete.soft", func(db *gorm.DB) (*gorm.DB, bool) {
			return db.Where([]int{verifrt.Int("k")}).Delete(&Doc{}), true
		}},
		{"delete-value-key", func(db *gorm.DB) (*gorm.DB, bool) {
			id := uint(verifrt.Intn("id", 0, 3))
			return db.Delete(&Item{ID: id}), id != 0
		}},
		{"delete-value-key.soft", func(db *gorm.DB) (*gorm.DB, bool) {
			id := uint(verifrt.Intn("id", 0, 3))
			return db.Delete(&Doc{ID: id}), id != 0
		}},
		{"model-key.delete-blank.soft", func(db *gorm.DB) (*gorm.DB, bool) {
			id := uint(verifrt.Intn("id", 0, 3))
			return db.Model(&Doc{ID: id}).Delete(&Doc{}), id != 0
		}},
		{"model-key.delete-blank", func(db *gorm.DB) (*gorm.DB, bool) {
			id := uint(verifrt.Intn("id", 0, 3))
			return db.Model(&Item{ID: id}).Delete(&Item{}), id != 0
		}},
		{"inline-empty-slice.delete", func(db *gorm.DB) (*gorm.DB, bool) {
			return db.Delete(&Item{}, []int{}), false
		}},
		{"inline-key.delete.soft", func(db *gorm.DB) (*gorm.DB, bool) {
			return db.Delete(&Doc{}, verifrt.Int("k")), true
		}},
		{"inline-struct.delete", func(db *gorm.DB) (*gorm.DB, bool) {
			age := verifrt.Int("age")
			return db.Delete(&Item{}, Item{Age: age}), age != 0
		}},
		{"not-struct.delete", func(db *gorm.DB) (*gorm.DB, bool) {
			age := verifrt.Int("age")
			return db.Not(Item{Age: age}).Delete(&Item{}), age != 0
		}},
		{"or-empty-map.updates-struct", func(db *gorm.DB) (*gorm.DB, bool) {
			return db.Model(&Item{}).Or(map[string]interface{}{}).Updates(Item{Name: "x"}), false
		}},
		{"or-raw.update.soft", func(db *gorm.DB) (*gorm.DB, bool) {
			return db.Model(&Doc{}).Or("rank > ?", verifrt.Int("r")).Update("title", "x"), true
		}},
		{"updates-self.string-key", func(db *gorm.DB) (*gorm.DB, bool) {
			code := symName("code")
			return db.Updates(&Tagged{Code: code, Name: "x"}), code != ""
		}},
		{"update-columns-self.string-key", func(db *gorm.DB) (*gorm.DB, bool) {
			code := symName("code")
			return db.UpdateColumns(&Tagged{Code: code, Name: "x"}), code != ""
		}},
		{"updates-self.int-key", func(db *gorm.DB) (*gorm.DB, bool) {
			id := uint(verifrt.Intn("id", 0, 3))
			return db.Updates(&Item{ID: id, Name: "x"}), id != 0
		}},
		{"order-limit.update-column", func(db *gorm.DB) (*gorm.DB, bool) {
			return db.Model(&Item{}).Order("id").Limit(1).UpdateColumn("name", "x"), false
		}},
		{"select-omit-table.update", func(db *gorm.DB) (*gorm.DB, bool) {
			return db.Table("items").Select("name").Omit("age").Update("name", "x"), false
		}},
		// deleting selected associations of a value without key: nothing may be sent for them either
		{"select-hasmany.delete-zero-key", func(db *gorm.DB) (*gorm.DB, bool) {
			return db.Select("Pets").Delete(&Owner{}), false
		}},
		{"select-hasone.delete-zero-key", func(db *gorm.DB) (*gorm.DB, bool) {
			return db.Select("Profile").Delete(&Owner{}), false
		}},
		{"select-polymorphic.delete-zero-key", func(db *gorm.DB) (*gorm.DB, bool) {
			return db.Select("Toys").Delete(&Kid{}), false
		}},
		{"select-many2many.delete-zero-key", func(db *gorm.DB) (*gorm.DB, bool) {
			return db.Select("Langs").Delete(&Speaker{}), false
		}},
		{"select-hasmany.delete-keyed", func(db *gorm.DB) (*gorm.DB, bool) {
			id := uint(verifrt.Intn("id", 0, 3))
			return db.Select("Pets").Delete(&Owner{ID: id}), id != 0
		}},
		{"unscoped.delete.soft", func(db *gorm.DB) (*gorm.DB, bool) {
			return db.Unscoped().Delete(&Doc{}), false
		}},
		{"unscoped-where.delete.soft", func(db *gorm.DB) (*gorm.DB, bool) {
			return db.Unscoped().Where("rank = ?", verifrt.Int("r")).Delete(&Doc{}), true
		}},
		{"scopes-noop.delete", func(db *gorm.DB) (*gorm.DB, bool) {
			return db.Scopes(func(d *gorm.DB) *gorm.DB { return d }).Delete(&Item{}), false
		}},
		{"scopes-where.delete.soft", func(db *gorm.DB) (*gorm.DB, bool) {
			age := verifrt.Int("age")
			return db.Scopes(func(d *gorm.DB) *gorm.DB { return d.Where(Doc{Rank: age}) }).Delete(&Doc{}), age != 0
		}},
		{"after-count.unscoped-delete.soft", func(db *gorm.DB) (*gorm.DB, bool) {
			q := db.Model(&Doc{})
			var n int64
			q.Count(&n)
			return q.Unscoped().Delete(&Doc{}), false
		}},
		{"after-find.session-update.soft", func(db *gorm.DB) (*gorm.DB, bool) {
			q := db.Model(&Doc{})
			var docs []Doc
			q.Find(&docs)
			return q.Session(&gorm.Session{}).Update("title", "x"), false
		}},
		{"after-empty-updates.withcontext-delete.soft", func(db *gorm.DB) (*gorm.DB, bool) {
			q := db.Model(&Doc{})
			q.Updates(Doc{})
			return q.WithContext(tagCtx(2)).Delete(&Doc{}), false
		}},
		{"where-zero-struct.or-struct.delete", func(db *gorm.DB) (*gorm.DB, bool) {
			a, b := verifrt.Int("a"), verifrt.Int("b")
			return db.Where(Item{Age: a}).Or(Item{Age: b}).Delete(&Item{}), a != 0 || b != 0
		}},
	}
}

// every chain family also runs on a RETURNING-capable dialect with
// Clauses(clause.Returning{}) on the handle: the write is then sent as a query
func N_C09_Guard(tier int) int { return 2 * len(c09Cases()) }

// writes counts the UPDATE / DELETE statements sent, whether executed or queried (RETURNING)
func c09Writes(s *Store) int {
	n := 0
	for _, e := range s.Log {
		if (e.Kind == "EXEC" || e.Kind == "QUERY") && (hasPrefix(e.Text, "UPDATE") || hasPrefix(e.Text, "DELETE")) {
			n++
		}
	}
	return n
}

func H_C09_Guard(shape int) {
	cs := c09Cases()
	c := cs[shape%len(cs)]
	returning := shape >= len(cs)
	verifrt.Tag(c.name)
	s := NewStore()
	allowCfg := verifrt.Bool("allow_config")
	allowSess := verifrt.Bool("allow_session")
	db := openReal(stubDialector{returning: returning}, s, &gorm.Config{AllowGlobalUpdate: allowCfg})
	if allowSess {
		db = db.Session(&gorm.Session{AllowGlobalUpdate: true})
	}
	if returning && indexStr(c.name, "table") >= 0 {
		// RETURNING without a model has nothing to scan into (gorm panics in Scan,
		// whatever the conditions): outside this property
		verifrt.Reach("outside-claim:returning-without-model")
		return
	}
	if returning {
		verifrt.Tag("returning")
		db = db.Clauses(clause.Returning{}).Session(&gorm.Session{})
	}
	res, eff := c.run(db)
	verifrt.Reach("ran")
	verifrt.Observe("err", res.Error)
	verifrt.Observe("log", s.Kinds())
	missing := errors.Is(res.Error, gorm.ErrMissingWhereClause)
	if !allowCfg && !allowSess && !eff {
		verifrt.Assert(missing, "C09.not-rejected")
		verifrt.Assert(c09Writes(s) == 0, "C09.executed")
		verifrt.Assert(len(s.Durable) == 0, "C09.changed")
		verifrt.Assert(s.OpenTx() == 0, "C09.tx-open")
	}
	if eff || allowCfg || allowSess {
		verifrt.Assert(!missing, "C09.wrongly-rejected")
		verifrt.Assert(res.Error == nil, "C09.error")
		if hasPrefix(c.name, "select-") {
			// the selected association is deleted before the value itself
			verifrt.Assert(c09Writes(s) >= 1, "C09.main-statement")
		} else {
			verifrt.Assert(c09Writes(s) == 1, "C09.main-statement")
		}
	}
}

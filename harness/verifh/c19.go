package verifh

import (
	"database/sql/driver"
	"errors"
	"time"

	"gorm.io/gorm"
	"gorm.io/gorm/clause"
	"gorm.io/gorm/internal/verifrt"
)

// C19 — DryRun and ToSQL send nothing and show exactly what a real run sends.
// Every finisher is run twice from identical handles over two stores.

type c19Case struct {
	name string
	run  func(db *gorm.DB, v []int) *gorm.DB
}

func c19Cases() []c19Case {
	return []c19Case{
		{"find-where", func(db *gorm.DB, v []int) *gorm.DB {
			var r []Item
			return db.Where("age > ? AND score < ?", v[0], v[1]).Find(&r)
		}},
		{"find-map-in", func(db *gorm.DB, v []int) *gorm.DB {
			var r []Item
			return db.Where(map[string]interface{}{"age": []int{v[0], v[1]}}).Find(&r)
		}},
		{"first-struct", func(db *gorm.DB, v []int) *gorm.DB { var r Item; return db.Where(&Item{Age: v[0]}).First(&r) }},
		{"take-inline", func(db *gorm.DB, v []int) *gorm.DB { var r Item; return db.Take(&r, "age = ?", v[0]) }},
		{"last-soft", func(db *gorm.DB, v []int) *gorm.DB { var r Doc; return db.Where("rank = ?", v[0]).Last(&r) }},
		{"count", func(db *gorm.DB, v []int) *gorm.DB {
			var n int64
			return db.Model(&Item{}).Where("age = ?", v[0]).Count(&n)
		}},
		{"pluck", func(db *gorm.DB, v []int) *gorm.DB {
			var ns []string
			return db.Model(&Item{}).Where("age <> ?", v[0]).Pluck("name", &ns)
		}},
		{"scan", func(db *gorm.DB, v []int) *gorm.DB {
			var r []map[string]interface{}
			return db.Table("items").Select("name, age").Where("age IN (?)", []int{v[0], v[1]}).Scan(&r)
		}},
		{"raw-scan", func(db *gorm.DB, v []int) *gorm.DB {
			var r []Item
			return db.Raw("SELECT * FROM items WHERE age = ? OR score = ?", v[0], v[1]).Scan(&r)
		}},
		{"exec", func(db *gorm.DB, v []int) *gorm.DB {
			return db.Exec("UPDATE items SET age = ? WHERE id = ?", v[0], v[1])
		}},
		{"create-struct", func(db *gorm.DB, v []int) *gorm.DB { return db.Create(&Item{Name: "a", Age: v[0], Score: int64(v[1])}) }},
		{"create-slice", func(db *gorm.DB, v []int) *gorm.DB {
			return db.Create(&[]Item{{Name: "a", Age: v[0]}, {Name: "b", Age: v[1]}})
		}},
		{"create-map", func(db *gorm.DB, v []int) *gorm.DB {
			return db.Model(&Item{}).Create(map[string]interface{}{"name": "m", "age": v[0]})
		}},
		{"create-times", func(db *gorm.DB, v []int) *gorm.DB { return db.Create(&Post{Title: "t", Views: v[0]}) }},
		{"create-hooks", func(db *gorm.DB, v []int) *gorm.DB { return db.Create(&HRec{Name: "r", Val: v[0]}) }},
		{"upsert-donothing", func(db *gorm.DB, v []int) *gorm.DB {
			return db.Clauses(clause.OnConflict{DoNothing: true}).Create(&Item{ID: 4, Name: "a", Age: v[0]})
		}},
		{"upsert-updateall", func(db *gorm.DB, v []int) *gorm.DB {
			return db.Clauses(clause.OnConflict{UpdateAll: true}).Create(&Item{ID: 4, Name: "a", Age: v[0]})
		}},
		{"upsert-doupdates", func(db *gorm.DB, v []int) *gorm.DB {
			return db.Clauses(clause.OnConflict{Columns: []clause.Column{{Name: "id"}}, DoUpdates: clause.AssignmentColumns([]string{"age"})}).Create(&Item{ID: 4, Age: v[0]})
		}},
		{"save-new", func(db *gorm.DB, v []int) *gorm.DB { return db.Save(&Item{Name: "a", Age: v[0]}) }},
		{"save-existing", func(db *gorm.DB, v []int) *gorm.DB { return db.Save(&Item{ID: 9, Name: "a", Age: v[0]}) }},
		{"update", func(db *gorm.DB, v []int) *gorm.DB { return db.Model(&Item{ID: 9}).Update("age", v[0]) }},
		{"updates-map", func(db *gorm.DB, v []int) *gorm.DB {
			return db.Model(&Item{}).Where("score = ?", v[1]).Updates(map[string]interface{}{"age": v[0], "name": "z"})
		}},
		{"updates-struct-times", func(db *gorm.DB, v []int) *gorm.DB { return db.Model(&Post{ID: 2}).Updates(Post{Views: v[0]}) }},
		{"update-column-expr", func(db *gorm.DB, v []int) *gorm.DB {
			return db.Model(&Item{ID: 9}).UpdateColumn("age", gorm.Expr("age + ?", v[0]))
		}},
		{"delete", func(db *gorm.DB, v []int) *gorm.DB { return db.Where("age = ?", v[0]).Delete(&Item{}) }},
		{"delete-soft", func(db *gorm.DB, v []int) *gorm.DB { return db.Where("rank = ?", v[0]).Delete(&Doc{}) }},
		{"delete-unscoped", func(db *gorm.DB, v []int) *gorm.DB { return db.Unscoped().Delete(&Doc{ID: 3}, "rank = ?", v[0]) }},
		{"row", func(db *gorm.DB, v []int) *gorm.DB {
			tx := db.Model(&Item{}).Where("age = ?", v[0])
			func() {
				// a zero *sql.Row (dry run returns nil) must not be scanned
				defer func() { recover() }()
				if r := tx.Select("name").Row(); r != nil {
					var name string
					r.Scan(&name)
				}
			}()
			return tx
		}},
		{"raw-row", func(db *gorm.DB, v []int) *gorm.DB {
			tx := db.Raw("SELECT name FROM items WHERE age = ?", v[0])
			func() {
				defer func() { recover() }()
				if r := tx.Row(); r != nil {
					var name string
					r.Scan(&name)
				}
			}()
			return tx
		}},
		{"updates-returning", func(db *gorm.DB, v []int) *gorm.DB {
			var out []Item
			return db.Model(&out).Clauses(clause.Returning{}).Where("score = ?", v[1]).Updates(map[string]interface{}{"age": v[0]})
		}},
		{"update-returning-columns", func(db *gorm.DB, v []int) *gorm.DB {
			var out []Item
			return db.Model(&out).Clauses(clause.Returning{Columns: []clause.Column{{Name: "name"}}}).Where("score = ?", v[1]).Update("age", v[0])
		}},
		// writes the real run refuses (no condition): the dry run must refuse them too, not expose a statement
		{"refused-delete-no-key", func(db *gorm.DB, v []int) *gorm.DB { return db.Delete(&Item{}) }},
		{"refused-delete-soft-no-key", func(db *gorm.DB, v []int) *gorm.DB { return db.Delete(&Doc{}) }},
		{"refused-delete-empty-slice", func(db *gorm.DB, v []int) *gorm.DB { return db.Delete(&[]Item{}) }},
		{"refused-update-no-condition", func(db *gorm.DB, v []int) *gorm.DB { return db.Model(&Item{}).Update("age", v[0]) }},
		{"delete-returning", func(db *gorm.DB, v []int) *gorm.DB {
			var out []Item
			return db.Clauses(clause.Returning{}).Where("age = ?", v[0]).Delete(&out)
		}},
		{"create-returning", func(db *gorm.DB, v []int) *gorm.DB {
			return db.Clauses(clause.Returning{}).Create(&Item{Name: "a", Age: v[0]})
		}},
		{"create-in-batches", func(db *gorm.DB, v []int) *gorm.DB {
			return db.CreateInBatches(&[]Item{{Name: "a", Age: v[0]}, {Name: "b", Age: v[1]}, {Name: "c"}}, 2)
		}},
		{"create-batch-size-session", func(db *gorm.DB, v []int) *gorm.DB {
			return db.Session(&gorm.Session{CreateBatchSize: 2}).Create(&[]Item{{Name: "a", Age: v[0]}, {Name: "b", Age: v[1]}, {Name: "c"}})
		}},
		// a sub-query handle derived from the same (possibly dry-run) handle, bound more
		// than once: in two successive statements and twice in one statement
		{"subquery-reused", func(db *gorm.DB, v []int) *gorm.DB {
			sub := db.Model(&Item{}).Select("id").Where("name LIKE ?", "n%")
			var r []Item
			db.Where("name = ? AND id IN (?)", "x", sub).Find(&r)
			return db.Where("age = ? AND (id IN (?) OR score IN (?))", v[0], sub, sub).Find(&r)
		}},
		// records carrying association values: the nested association statements are not sent either
		{"assoc-create-graph", func(db *gorm.DB, v []int) *gorm.DB {
			return db.Create(&Owner{Name: "o", Company: &Company{Name: "c"}, Profile: Profile{Bio: "b"}, Pets: []Pet{{Name: "p"}}})
		}},
		{"assoc-create-many2many", func(db *gorm.DB, v []int) *gorm.DB {
			return db.Create(&Speaker{Name: "s", Langs: []Lang{{Name: "go"}, {ID: 4, Name: "ml"}}})
		}},
		{"assoc-save-full", func(db *gorm.DB, v []int) *gorm.DB {
			return db.Session(&gorm.Session{FullSaveAssociations: true}).Save(&Owner{ID: 3, Name: "o", Pets: []Pet{{ID: 7, Name: "p"}}})
		}},
		{"assoc-delete-select", func(db *gorm.DB, v []int) *gorm.DB {
			return db.Select("Pets").Delete(&Owner{ID: 3})
		}},
		{"rows", func(db *gorm.DB, v []int) *gorm.DB {
			tx := db.Model(&Item{}).Where("age = ?", v[0])
			rows, err := tx.Rows()
			if err == nil && rows != nil {
				rows.Close()
			}
			return tx
		}},
	}
}

func N_C19_Twice(tier int) int { return 2 * len(c19Cases()) }

func normVar(v interface{}) driver.Value {
	nv, err := driver.DefaultParameterConverter.ConvertValue(v)
	if err != nil {
		return "conversion-error"
	}
	return nv
}

func sameArg(dry interface{}, real driver.Value) bool {
	d := normVar(dry)
	if _, ok := d.(time.Time); ok {
		_, ok2 := real.(time.Time)
		return ok2 // tracked times differ between two runs
	}
	return verifrt.SameValue(d, real)
}

func firstStatement(s *Store) (Event, bool) {
	for _, e := range s.Log {
		if e.Kind == "EXEC" || e.Kind == "QUERY" {
			return e, true
		}
	}
	return Event{}, false
}

func H_C19_Twice(shape int) {
	cases := c19Cases()
	c := cases[shape%len(cases)]
	dial := stubDialector{returning: shape >= len(cases)} // dialects with and without RETURNING support
	verifrt.Tag(c.name)
	v := []int{verifrt.Int("v0"), verifrt.Int("v1")}
	mode := verifrt.Concretize(verifrt.Intn("dry_mode", 0, 1), 0, 1) // 0 = config, 1 = session
	sDry, sReal := NewStore(), NewStore()
	dry := openReal(dial, sDry, &gorm.Config{DryRun: mode == 0})
	if mode == 1 {
		dry = dry.Session(&gorm.Session{DryRun: true})
	}
	real := openReal(dial, sReal, nil)
	hooks = &hookCtl{}
	dres := c.run(dry, v)
	hooks = &hookCtl{}
	rres := c.run(real, v)
	verifrt.Reach("both-ran")
	sql := dres.Statement.SQL.String()
	if hasPrefix(c.name, "refused-") {
		// the real run refuses the write and sends nothing: the dry run reports the same refusal
		verifrt.Assert(errors.Is(rres.Error, gorm.ErrMissingWhereClause) && sReal.Count("EXEC")+sReal.Count("QUERY") == 0, "C19.real-run-not-refused")
		verifrt.Assert(errors.Is(dres.Error, gorm.ErrMissingWhereClause), "C19.dry-run-hides-refusal")
		verifrt.Assert(sDry.Count("PREPARE")+sDry.Count("EXEC")+sDry.Count("QUERY") == 0, "C19.dry-run-sent")
		return
	}
	verifrt.Observe("dry-sql", sql)
	verifrt.Observe("dry-log", sDry.Kinds())
	verifrt.Observe("real-log", sReal.Kinds())
	// nothing is sent in dry run (an empty implicit transaction is allowed)
	verifrt.Assert(sDry.Count("PREPARE")+sDry.Count("EXEC")+sDry.Count("QUERY") == 0, "C19.dry-run-sent")
	verifrt.Assert(len(sDry.Durable) == 0, "C19.dry-run-wrote")
	verifrt.Assert(sDry.OpenTx() == 0, "C19.dry-run-tx-open")
	// the exposed statement is the main statement of the real run
	first, ok := firstStatement(sReal)
	verifrt.Assert(ok, "C19.real-sent-nothing")
	if hasPrefix(c.name, "create-in-batches") || hasPrefix(c.name, "create-batch-size") || c.name == "subquery-reused" {
		// several statements are sent: the exposed statement is the last one
		for _, e := range sReal.Log {
			if e.Kind == "EXEC" || e.Kind == "QUERY" {
				first = e
			}
		}
	}
	if c.name == "create-batch-size-session" || c.name == "create-in-batches" || hasPrefix(c.name, "assoc-") {
		return // several statements and no single exposed one (batches), or bound keys that only a real run generates (association graphs): only "nothing is sent" applies
	}
	verifrt.Assert(sql == first.Text, "C19.text-differs")
	verifrt.Assert(len(dres.Statement.Vars) == len(first.Args), "C19.arg-count")
	for i := range first.Args {
		if i < len(dres.Statement.Vars) {
			verifrt.Assert(sameArg(dres.Statement.Vars[i], first.Args[i]), "C19.arg-differs")
		}
	}
}

func N_C19_ToSQL(tier int) int { return 2 * len(c19Cases()) }

func H_C19_ToSQL(shape int) {
	cases := c19Cases()
	c := cases[shape%len(cases)]
	dial := stubDialector{returning: shape >= len(cases)}
	verifrt.Tag(c.name)
	if hasPrefix(c.name, "refused-") {
		// ToSQL has no way to report the refusal (it returns text only): covered by H_C19_Twice
		verifrt.Reach("outside-claim:tosql-of-refused-write")
		return
	}
	v := []int{verifrt.Int("v0"), verifrt.Int("v1")}
	sDry, sReal := NewStore(), NewStore()
	dry := openReal(dial, sDry, nil)
	real := openReal(dial, sReal, nil)
	hooks = &hookCtl{}
	// the handle may already carry chain state (a reusable pre-chained handle)
	pre := verifrt.Concretize(verifrt.Intn("prechained", 0, 2), 0, 2)
	chain := func(d *gorm.DB) *gorm.DB {
		switch pre {
		case 1:
			return d.Where("score > ?", v[1]).Session(&gorm.Session{})
		case 2:
			return d.Order("name").Limit(5).Session(&gorm.Session{})
		}
		return d
	}
	if pre != 0 && (c.name == "exec" || c.name == "raw-scan" || c.name == "raw-row" || c.name == "create-map" || hasPrefix(c.name, "create") || hasPrefix(c.name, "upsert") || hasPrefix(c.name, "save")) {
		verifrt.Assume(false) // conditions and ordering do not apply to raw SQL and inserts
	}
	sql := chain(dry).ToSQL(func(tx *gorm.DB) *gorm.DB { return c.run(tx, v) })
	hooks = &hookCtl{}
	c.run(chain(real), v)
	verifrt.Observe("tosql", sql)
	// ToSQL makes no driver call at all
	verifrt.Assert(len(sDry.Log) == 0, "C19.tosql-driver-call")
	first, ok := firstStatement(sReal)
	verifrt.Assert(ok, "C19.real-sent-nothing")
	if hasPrefix(c.name, "create-in-batches") || hasPrefix(c.name, "create-batch-size") || c.name == "subquery-reused" {
		for _, e := range sReal.Log {
			if e.Kind == "EXEC" || e.Kind == "QUERY" {
				first = e
			}
		}
	}
	if c.name == "create-batch-size-session" || c.name == "create-in-batches" || hasPrefix(c.name, "assoc-") {
		return
	}
	// the stub dialector's Explain returns the text unchanged
	verifrt.Assert(sql == first.Text, "C19.tosql-text-differs")
}

package verifh

import (
	"context"
	"database/sql"

	"gorm.io/gorm"
	"gorm.io/gorm/internal/verifrt"
)

// faultPool sits between gorm and *sql.DB at gorm's ConnPool interface: it
// numbers the PrepareContext calls gorm issues (on the pool and on
// transactions) and fails the k-th one. Being harness code it is the same in
// the symbolic and in the native world, unlike driver-level prepare traffic,
// which depends on database/sql's pool internals.
type faultPool struct {
	inner *sql.DB
	s     *Store
}

func (p *faultPool) prepFault(ctx context.Context) error {
	verifrt.Yield() // a preparation takes time: other goroutines may run meanwhile
	verifrt.Yield()
	defer verifrt.Yield()
	p.s.noteMu.Lock()
	p.s.gormPrepares++
	n := p.s.gormPrepares
	p.s.noteMu.Unlock()
	if p.s.CtxCancel != 0 && ctxTag(ctx) == p.s.CtxCancel {
		return context.Canceled
	}
	if p.s.PrepareFaultAt != 0 && n == p.s.PrepareFaultAt {
		return errInjected
	}
	return nil
}

func (p *faultPool) PrepareContext(ctx context.Context, query string) (*sql.Stmt, error) {
	p.s.notePrepare(query)
	if err := p.prepFault(ctx); err != nil {
		return nil, err
	}
	return p.inner.PrepareContext(ctx, query)
}
func (p *faultPool) ExecContext(ctx context.Context, query string, args ...interface{}) (sql.Result, error) {
	return p.inner.ExecContext(ctx, query, args...)
}
func (p *faultPool) QueryContext(ctx context.Context, query string, args ...interface{}) (*sql.Rows, error) {
	return p.inner.QueryContext(ctx, query, args...)
}
func (p *faultPool) QueryRowContext(ctx context.Context, query string, args ...interface{}) *sql.Row {
	return p.inner.QueryRowContext(ctx, query, args...)
}
func (p *faultPool) GetDBConn() (*sql.DB, error) { return p.inner, nil }
func (p *faultPool) BeginTx(ctx context.Context, opts *sql.TxOptions) (gorm.ConnPool, error) {
	tx, err := p.inner.BeginTx(ctx, opts)
	if err != nil {
		return nil, err
	}
	return &faultTx{Tx: tx, p: p}, nil
}

type faultTx struct {
	*sql.Tx
	p *faultPool
}

func (t *faultTx) PrepareContext(ctx context.Context, query string) (*sql.Stmt, error) {
	t.p.s.notePrepare(query)
	if err := t.p.prepFault(ctx); err != nil {
		return nil, err
	}
	return t.Tx.PrepareContext(ctx, query)
}

// openPrepared opens a PrepareStmt handle over the fault pool.
func openPrepared(s *Store, cfg *gorm.Config) *gorm.DB {
	if cfg == nil {
		cfg = &gorm.Config{}
	}
	cfg.Logger = stubLogger{}
	cfg.DisableAutomaticPing = true
	cfg.NamingStrategy = stubNamer{}
	cfg.PrepareStmt = true
	cfg.ConnPool = &faultPool{inner: OpenPool(s), s: s}
	db, err := gorm.Open(stubDialector{}, cfg)
	if err != nil {
		panic("open: " + err.Error())
	}
	return db
}

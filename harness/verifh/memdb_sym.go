//go:build verifsym

package verifh

// Dump is a no-op under the engine (traces are written by the native runs).
func (m *MemDB) Dump(label string) {}

package verifh

import (
	"database/sql/driver"

	"gorm.io/gorm"
	"gorm.io/gorm/clause"
	"gorm.io/gorm/internal/verifrt"
)

// C08 — soft-deleted records are invisible and untouched unless Unscoped is
// requested. Same chain machinery as C02 on a soft-delete model, with a leading
// Or allowed; the row carries a nullable deleted-at column.

type c08Shape struct {
	comb     []int
	unit     []int
	fin      int // 0 Find, 1 Count, 2 Pluck, 3 Update, 4 Delete, 5 First, 6 UpdateColumn
	unscoped bool
	ptr      bool // the model declares its marker as *gorm.DeletedAt
}

var c08Units = []int{0, 1, 2, 3, 5, 6, 9, 11, 12, 14, 15, 20, 33, 34}

func c08Shapes(tier int) []c08Shape {
	var r []c08Shape
	for _, un := range []bool{false, true} {
		for fin := 0; fin <= 6; fin++ {
			r = append(r, c08Shape{fin: fin, unscoped: un}) // no condition at all
			for c1 := 0; c1 <= 2; c1++ {
				for _, u1 := range c08Units {
					if tier == 0 && fin != 0 && fin != 4 && u1 != 1 && u1 != 9 && u1 != 3 {
						continue
					}
					r = append(r, c08Shape{comb: []int{c1}, unit: []int{u1}, fin: fin, unscoped: un})
				}
			}
		}
		// two units, Find only
		for c1 := 0; c1 <= 2; c1++ {
			for _, u1 := range c08Units {
				for c2 := 0; c2 <= 2; c2++ {
					for _, u2 := range []int{0, 1, 5, 14} {
						if tier == 0 && un && u1 != 1 {
							continue
						}
						r = append(r, c08Shape{comb: []int{c1, c2}, unit: []int{u1, u2}, unscoped: un})
					}
				}
			}
		}
	}
	// the same on a model whose marker is a pointer field (DeletedAt *gorm.DeletedAt)
	for _, un := range []bool{false, true} {
		for fin := 0; fin <= 6; fin++ {
			r = append(r, c08Shape{fin: fin, unscoped: un, ptr: true})
			for _, cu := range [][2]int{{0, 0}, {1, 1}, {2, 5}, {0, 1}} {
				r = append(r, c08Shape{comb: []int{cu[0]}, unit: []int{cu[1]}, fin: fin, unscoped: un, ptr: true})
			}
		}
	}
	return r
}

func N_C08_Chain(tier int) int { return len(c08Shapes(tier)) }

func c08Memo(tier int) []c08Shape {
	return verifrt.Memo("c08Shapes"+string([]byte{byte('0' + tier)}), func() interface{} { return c08Shapes(tier) }).([]c08Shape)
}

func H_C08_Chain(shape int) {
	tier := 1
	if shape < len(c08Memo(0)) {
		tier = 0
	}
	sh := c08Memo(tier)[shape]
	desc := c02Describe(c02Shape{comb: sh.comb, unit: sh.unit}) + []string{".Find", ".Count", ".Pluck", ".Update", ".Delete", ".First", ".UpdateColumn"}[sh.fin]
	if sh.unscoped {
		desc += ".Unscoped"
	}
	if sh.ptr {
		desc += ".pointer-marker"
	}
	verifrt.Tag(desc)
	row := newSymRow("id", "a", "b", "c", "deletedat")
	verifrt.Assume(!row.nulls[0])
	base := openDry(stubDialector{})
	db := base.Model(&S3{})
	if sh.ptr {
		db = base.Model(&S3P{})
	}
	if sh.unscoped {
		db = db.Unscoped()
	}
	acc := &c02Acc{}
	for i := range sh.comb {
		u := c02MakeUnit(sh.unit[i], base, row, "u"+string([]byte{byte('0' + i)}))
		db = c02Apply(db, sh.comb[i], u, acc)
	}
	// a chain whose first effective condition is introduced by Or: only
	// invisibility is asserted (C02 leaves the row set of such chains open)
	leadingOr := false
	for i := range sh.comb {
		if sh.comb[i] == 1 {
			leadingOr = true
		}
		if sh.comb[i] != 1 {
			break
		}
	}
	for i := range sh.comb {
		// an empty first unit makes the next one the first effective condition
		if i > 0 && sh.comb[i] == 1 && sh.unit[i-1] == 9 {
			leadingOr = true
		}
	}
	var stmt *gorm.Statement
	skip, tail := 0, 0
	switch sh.fin {
	case 0:
		if sh.ptr {
			var out []S3P
			stmt = db.Find(&out).Statement
		} else {
			var out []S3
			stmt = db.Find(&out).Statement
		}
	case 1:
		var n int64
		stmt = db.Count(&n).Statement
	case 2:
		var as []int
		stmt = db.Pluck("a", &as).Statement
	case 3:
		stmt = db.Update("c", 1).Statement
		skip = 1
	case 4:
		if sh.ptr {
			stmt = db.Delete(&S3P{}).Statement
		} else {
			stmt = db.Delete(&S3{}).Statement
		}
		if !sh.unscoped {
			skip = 1 // SET deletedat = ?
		}
	case 5:
		if sh.ptr {
			var out S3P
			stmt = db.First(&out).Statement
		} else {
			var out S3
			stmt = db.First(&out).Statement
		}
		tail = 1 // LIMIT ?
	case 6:
		stmt = db.UpdateColumn("c", 1).Statement
		skip = 1
	}
	verifrt.Reach("built")
	sql := stmt.SQL.String()
	verifrt.Observe("sql", sql)
	want, any := acc.value()
	w, has := whereText(sql)
	if !any && (sh.fin == 3 || sh.fin == 4 || sh.fin == 6) {
		return // no user condition on a write: rejected (C09)
	}
	verifrt.Assert(stmt.Error == nil, "C08.error")
	_, dn, _ := row.col("deletedat")
	live := tv3{dn, !dn}
	if sh.fin == 4 {
		if sh.unscoped {
			verifrt.Assert(hasPrefix(sql, "DELETE FROM "), "C08.unscoped-delete-not-physical")
		} else {
			verifrt.Assert(hasPrefix(sql, "UPDATE "), "C08.soft-delete-removes-rows")
		}
	}
	if sh.unscoped {
		// marked rows are visible again: exactly the user's condition
		if !any {
			verifrt.Assert(!has, "C08.unscoped-filter")
			return
		}
		verifrt.Assert(has, "C08.no-where-clause")
		got, used := evalWhere(w, stmt.Vars[skip:len(stmt.Vars)-tail], row)
		verifrt.Assert(used == len(stmt.Vars)-skip-tail, "C08.bound-values")
		if !leadingOr {
			verifrt.Assert(verifrt.Iff(got.t, want.t), "C08.unscoped-rows")
		}
		return
	}
	verifrt.Assert(has, "C08.no-where-clause")
	got, used := evalWhere(w, stmt.Vars[skip:len(stmt.Vars)-tail], row)
	verifrt.Assert(used == len(stmt.Vars)-skip-tail, "C08.bound-values")
	// a marked row never matches
	verifrt.Assert(verifrt.Implies(got.t, live.t), "C08.deleted-row-visible")
	// live rows: exactly the user's condition
	if leadingOr {
		return
	}
	if any {
		verifrt.Assert(verifrt.Iff(got.t, verifrt.And(want.t, live.t)), "C08.rows")
	} else {
		verifrt.Assert(verifrt.Iff(got.t, live.t), "C08.rows")
	}
}

// ---- relation join onto a soft-delete model

func N_C08_Join(tier int) int { return 16 }

func onText(sql string) (string, bool) {
	i := indexStr(sql, " ON ")
	if i < 0 {
		return "", false
	}
	w := sql[i+len(" ON "):]
	if j := indexStr(w, " WHERE "); j >= 0 {
		w = w[:j]
	}
	return w, true
}

func H_C08_Join(shape int) {
	kind := shape % 4 // 0 Joins, 1 InnerJoins, 2 Joins with conditions, 3 Joins with OR conditions
	unscoped := shape/4%2 == 1
	withWhere := shape/8 == 1
	verifrt.Tag([]string{"Joins", "InnerJoins", "Joins+conds", "Joins+or-conds"}[kind] + map[bool]string{false: "", true: ".Unscoped"}[unscoped] + map[bool]string{false: "", true: ".Where"}[withWhere])
	// the joined row: holder.docid, Doc.id, Doc.rank, Doc.deletedat
	row := newSymRow("docid", "id", "rank", "deletedat")
	verifrt.Assume(verifrt.And(!row.nulls[0], !row.nulls[1]))
	base := openDry(stubDialector{})
	db := base.Model(&Holder{})
	if unscoped {
		db = db.Unscoped()
	}
	r := verifrt.Int("rank")
	userOn := tvTrue
	switch kind {
	case 0:
		db = db.Joins("Doc")
	case 1:
		db = db.InnerJoins("Doc")
	case 2:
		db = db.Joins("Doc", base.Where(&Doc{Rank: r}))
		if r != 0 {
			userOn = colCmp(row, "rank", "=", r)
		}
	case 3:
		r2 := verifrt.Int("rank2")
		db = db.Joins("Doc", base.Where("rank = ?", r).Or("rank = ?", r2))
		userOn = tvOr(colCmp(row, "rank", "=", r), colCmp(row, "rank", "=", r2))
	}
	if withWhere {
		db = db.Where("name = ?", "n")
	}
	var out []Holder
	stmt := db.Find(&out).Statement
	sql := stmt.SQL.String()
	verifrt.Observe("sql", sql)
	verifrt.Assert(stmt.Error == nil, "C08.join-error")
	on, ok := onText(sql)
	verifrt.Assert(ok, "C08.join-no-on")
	nvars := len(stmt.Vars)
	if withWhere {
		nvars--
	}
	got, used := evalWhere(on, stmt.Vars[:nvars], row)
	verifrt.Assert(used == nvars, "C08.join-bound-values")
	dv, _, _ := row.col("docid")
	iv, _, _ := row.col("id")
	keys := cmp3("=", dv, false, iv, false)
	_, dn, _ := row.col("deletedat")
	want := tvAnd(keys, userOn)
	if unscoped {
		verifrt.Assert(verifrt.Iff(got.t, want.t), "C08.join-unscoped-rows")
		return
	}
	verifrt.Assert(verifrt.Implies(got.t, dn), "C08.join-deleted-row-visible")
	verifrt.Assert(verifrt.Iff(got.t, verifrt.And(want.t, dn)), "C08.join-rows")
}

// ---- deleting a value together with selected associations that are soft-delete
// models: soft by default, physical under Unscoped (by relation name, by
// clause.Associations)

type SKid struct {
	ID        uint
	SParentID uint
	Name      string
	DeletedAt gorm.DeletedAt
}

type SParent struct {
	ID        uint
	Name      string
	Kids      []SKid
	DeletedAt gorm.DeletedAt
}

func N_C08_Cascade(tier int) int { return 4 }

func H_C08_Cascade(shape int) {
	unscoped := shape%2 == 1
	byName := shape/2 == 0
	s := NewStore()
	db := openReal(stubDialector{}, s, &gorm.Config{NowFunc: c07Now})
	tx := db
	if unscoped {
		tx = tx.Unscoped()
	}
	if byName {
		tx = tx.Select("Kids")
	} else {
		tx = tx.Select(clause.Associations)
	}
	id := uint(verifrt.Intn("id", 1, 1000))
	res := tx.Delete(&SParent{ID: id})
	verifrt.Reach("ran")
	verifrt.Observe("log", s.Kinds())
	verifrt.Assert(res.Error == nil, "C08.error")
	kids, parents := 0, 0
	for _, e := range s.Log {
		if e.Kind != "EXEC" {
			continue
		}
		onKids, onParents := indexStr(e.Text, "`skids`") >= 0, indexStr(e.Text, "`sparents`") >= 0
		if !onKids && !onParents {
			continue
		}
		if onKids {
			kids++
		} else {
			parents++
		}
		if unscoped {
			verifrt.Assert(hasPrefix(e.Text, "DELETE FROM "), "C08.unscoped-delete-not-physical")
		} else {
			verifrt.Assert(hasPrefix(e.Text, "UPDATE "), "C08.soft-delete-removes-rows")
			w, ok := whereText(e.Text)
			verifrt.Assert(ok && indexStr(w, "`deletedat` IS NULL") >= 0, "C08.deleted-row-visible")
		}
	}
	verifrt.Assert(kids == 1 && parents == 1, "C08.cascade-statements")
}

// ---- association lookups and preloads of a soft-deletable target: every query on
// the target's table keeps deleted rows out

var c08Lookups = []string{"association-find-belongs-to", "association-count-belongs-to", "association-find-has-many", "association-count-has-many", "preload-belongs-to", "preload-has-many", "association-find-has-many-conds", "count-then-find-same-chain", "find-then-count-same-chain", "count-then-first-same-chain"}

func N_C08_Lookups(tier int) int { return len(c08Lookups) }

func H_C08_Lookups(shape int) {
	kind := c08Lookups[shape]
	verifrt.Tag(kind)
	s := NewStore()
	id := int64(verifrt.Intn("id", 1, 1000))
	s.OnQuery = func(text string, args []driver.Value) RowSet {
		switch {
		case hasPrefix(text, "SELECT count(*)"):
			return RowSet{Cols: []string{"count(*)"}, Rows: [][]driver.Value{{int64(1)}}}
		case hasPrefix(text, "SELECT * FROM `holders`"):
			return RowSet{Cols: []string{"id", "name", "docid"}, Rows: [][]driver.Value{{int64(1), "h", id}}}
		case hasPrefix(text, "SELECT * FROM `binders`"):
			return RowSet{Cols: []string{"id", "name"}, Rows: [][]driver.Value{{id, "b"}}}
		}
		return RowSet{}
	}
	db := openReal(stubDialector{}, s, nil)
	table := "`docs`"
	var err error
	switch kind {
	case "association-find-belongs-to":
		var d Doc
		err = db.Model(&Holder{ID: 1, DocID: uint(id)}).Association("Doc").Find(&d)
	case "association-count-belongs-to":
		a := db.Model(&Holder{ID: 1, DocID: uint(id)}).Association("Doc")
		a.Count()
		err = a.Error
	case "association-find-has-many":
		table = "`sheets`"
		var sh []Sheet
		err = db.Model(&Binder{ID: uint(id)}).Association("Sheets").Find(&sh)
	case "association-find-has-many-conds":
		table = "`sheets`"
		var sh []Sheet
		err = db.Model(&Binder{ID: uint(id)}).Where("id > ? OR id < ?", 5, 3).Association("Sheets").Find(&sh, "id <> ? OR id = ?", 7, 8)
	case "association-count-has-many":
		table = "`sheets`"
		a := db.Model(&Binder{ID: uint(id)}).Association("Sheets")
		a.Count()
		err = a.Error
	case "count-then-find-same-chain", "find-then-count-same-chain", "count-then-first-same-chain":
		// the pagination idiom on one chain value: a second finisher on the chain the first one ran on
		tx := db.Model(&Doc{}).Where("rank > ? OR rank < ?", 1, -1)
		var n int64
		var ds []Doc
		var d Doc
		switch kind {
		case "count-then-find-same-chain":
			err = tx.Count(&n).Error
			if err == nil {
				err = tx.Limit(2).Find(&ds).Error
			}
		case "find-then-count-same-chain":
			err = tx.Find(&ds).Error
			if err == nil {
				err = tx.Count(&n).Error
			}
		default:
			err = tx.Count(&n).Error
			if err == nil {
				tx.First(&d) // no row in the stub: ErrRecordNotFound is not the subject here
			}
		}
	case "preload-belongs-to":
		var hs []Holder
		err = db.Preload("Doc").Find(&hs).Error
	case "preload-has-many":
		table = "`sheets`"
		var bs []Binder
		err = db.Preload("Sheets", "id <> ? OR id = ?", 7, 8).Find(&bs).Error
	}
	verifrt.Reach("ran")
	verifrt.Observe("log", s.Kinds())
	verifrt.Assert(err == nil, "C08.error")
	n := 0
	for _, e := range s.Log {
		if e.Kind != "QUERY" || indexStr(e.Text, " FROM "+table) < 0 {
			continue
		}
		n++
		w, ok := whereText(e.Text)
		verifrt.Assert(ok, "C08.deleted-row-visible")
		// the guard is a conjunct of its own: "... AND `t`.`deletedat` IS NULL", user conditions with OR in parentheses
		g := indexStr(w, table+".`deletedat` IS NULL")
		verifrt.Assert(g >= 0, "C08.deleted-row-visible")
		if g >= 0 {
			depth, top := 0, true
			for i := 0; i < len(w); i++ {
				switch w[i] {
				case '(':
					depth++
				case ')':
					depth--
				}
				if depth == 0 && i+4 <= len(w) && w[i:i+4] == " OR " {
					top = false
				}
			}
			verifrt.Assert(top, "C08.deleted-row-visible")
		}
	}
	verifrt.Assert(n >= 1, "C08.no-lookup-query")
}

// ---- nested relation joins: every soft-deletable hop of the path keeps its deleted rows
// out of the join (and none does under Unscoped)

type JLeaf struct {
	ID        uint
	Name      string
	DeletedAt gorm.DeletedAt
}

type JMid struct {
	ID        uint
	LeafID    uint
	Leaf      *JLeaf
	DeletedAt gorm.DeletedAt
}

type JTop struct {
	ID    uint
	MidID uint
	Mid   *JMid
}

var c08Nested = []string{"joins-path", "innerjoins-path", "joins-hop-then-path", "joins-path-conds"}

func N_C08_NestedJoin(tier int) int { return 2 * len(c08Nested) }

func H_C08_NestedJoin(shape int) {
	kind := c08Nested[shape%len(c08Nested)]
	unscoped := shape >= len(c08Nested)
	verifrt.Tag(kind + map[bool]string{false: "", true: ".Unscoped"}[unscoped])
	base := openDry(stubDialector{})
	db := base.Model(&JTop{})
	if unscoped {
		db = db.Unscoped()
	}
	switch kind {
	case "joins-path":
		db = db.Joins("Mid.Leaf")
	case "innerjoins-path":
		db = db.InnerJoins("Mid.Leaf")
	case "joins-hop-then-path":
		db = db.Joins("Mid").Joins("Mid.Leaf")
	case "joins-path-conds":
		db = db.Joins("Mid.Leaf", base.Where("name = ?", "n").Or("name = ?", "m"))
	}
	var out []JTop
	stmt := db.Find(&out).Statement
	sql := stmt.SQL.String()
	verifrt.Observe("sql", sql)
	verifrt.Assert(stmt.Error == nil, "C08.join-error")
	// one ON text per joined hop
	var ons []string
	rest := sql
	for {
		i := indexStr(rest, " JOIN ")
		if i < 0 {
			break
		}
		rest = rest[i+len(" JOIN "):]
		j := indexStr(rest, " ON ")
		if j < 0 {
			break
		}
		on := rest[j+len(" ON "):]
		for _, stop := range []string{" LEFT JOIN ", " INNER JOIN ", " WHERE "} {
			if k := indexStr(on, stop); k >= 0 {
				on = on[:k]
			}
		}
		ons = append(ons, on)
	}
	verifrt.Assert(len(ons) == 2, "C08.join-no-on")
	for i, alias := range []string{"`Mid`", "`Mid__Leaf`"} {
		if i >= len(ons) {
			break
		}
		g := indexStr(ons[i], alias+".`deletedat` IS NULL")
		if unscoped {
			verifrt.Assert(g < 0, "C08.join-unscoped-rows")
			continue
		}
		verifrt.Assert(g >= 0, "C08.join-deleted-row-visible")
		// the guard is a conjunct of its own
		depth, top := 0, true
		for k := 0; k < len(ons[i]); k++ {
			switch ons[i][k] {
			case '(':
				depth++
			case ')':
				depth--
			}
			if depth == 0 && k+4 <= len(ons[i]) && ons[i][k:k+4] == " OR " {
				top = false
			}
		}
		verifrt.Assert(top, "C08.join-deleted-row-visible")
	}
}

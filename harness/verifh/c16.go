package verifh

import (
	"database/sql/driver"
	"errors"

	"gorm.io/gorm"
	"gorm.io/gorm/clause"
	"gorm.io/gorm/internal/verifrt"
)

// C16 — Save, upsert and FirstOrCreate/FirstOrInit converge to the documented
// state; none of it depends on a Session / WithContext placed in the chain.

// derive inserts a derivation of the chain (kind 0 = none).
func c16Derive(db *gorm.DB, kind int) *gorm.DB {
	switch kind {
	case 1:
		return db.Session(&gorm.Session{})
	case 2:
		return db.WithContext(tagCtx(9))
	case 3:
		return db.Session(&gorm.Session{Context: tagCtx(9)})
	case 4:
		return db.Debug()
	case 5:
		return db.Session(&gorm.Session{SkipHooks: true})
	}
	return db
}

type c16Shape struct {
	variant int  // 0: Attrs(age) + Assign(score); 1: Attrs and Assign name the same column; 2: Assign only
	create  bool // FirstOrCreate (else FirstOrInit)
	pos     int  // where the derivation is inserted: 0 after Where, 1 after Attrs, 2 after Assign
	kind    int  // derivation kind (0 = none)
	form    int  // 0 struct forms, 1 map forms, 2 key-value forms
}

func c16Shapes(tier int) []c16Shape {
	var r []c16Shape
	for _, cr := range []bool{false, true} {
		for variant := 1; variant <= 2; variant++ {
			for form := 0; form <= 2; form++ {
				r = append(r, c16Shape{create: cr, form: form, variant: variant}, c16Shape{create: cr, form: form, variant: variant, pos: 2, kind: 1}, c16Shape{create: cr, form: form, variant: variant, pos: 2, kind: 2})
			}
		}
		for form := 0; form <= 2; form++ {
			r = append(r, c16Shape{create: cr, form: form})
			for pos := 0; pos <= 2; pos++ {
				for kind := 1; kind <= 5; kind++ {
					if tier == 0 && form != 0 && kind > 2 {
						continue
					}
					r = append(r, c16Shape{create: cr, pos: pos, kind: kind, form: form})
				}
			}
		}
	}
	return r
}

func N_C16_FirstOr(tier int) int { return len(c16Shapes(tier)) }

func H_C16_FirstOr(shape int) {
	sh := c16Shapes(1)[shape%len(c16Shapes(1))]
	if shape < len(c16Shapes(0)) {
		sh = c16Shapes(0)[shape]
	}
	verifrt.Tag("v" + string([]byte{byte('0' + sh.variant)}))
	verifrt.Tag(map[bool]string{false: "FirstOrInit", true: "FirstOrCreate"}[sh.create] + ".pos" + string([]byte{byte('0' + sh.pos)}) + ".kind" + string([]byte{byte('0' + sh.kind)}) + ".form" + string([]byte{byte('0' + sh.form)}))
	a, b := verifrt.Int("attr_age"), verifrt.Int64("assign_score")
	found := verifrt.Bool("found")
	s := NewStore()
	s.FaultAt = verifrt.Intn("fault_at", 0, 2) // 1 = the lookup SELECT
	s.OnQuery = func(text string, args []driver.Value) RowSet {
		rs := RowSet{Cols: []string{"id", "name", "age", "score"}}
		if found {
			rs.Rows = [][]driver.Value{{int64(7), "n", int64(70), int64(700)}}
		}
		return rs
	}
	s.OnExec = func(text string, args []driver.Value) Result { return Result{LastID: 11, Affected: 1} }
	db := openReal(stubDialector{}, s, &gorm.Config{SkipDefaultTransaction: true})
	chain := db.Where(Item{Name: "n"})
	if sh.form == 1 {
		chain = db.Where(map[string]interface{}{"name": "n"})
	}
	if sh.kind != 0 && sh.pos == 0 {
		chain = c16Derive(chain, sh.kind)
	}
	attrCol := "age"
	if sh.variant == 1 {
		attrCol = "score" // the same column as Assign: Assign wins
	}
	if sh.variant != 2 {
		switch sh.form {
		case 0:
			if sh.variant == 1 {
				chain = chain.Attrs(Item{Score: int64(a)})
			} else {
				chain = chain.Attrs(Item{Age: a})
			}
		case 1:
			chain = chain.Attrs(map[string]interface{}{attrCol: a})
		case 2:
			chain = chain.Attrs(attrCol, a)
		}
	}
	if sh.kind != 0 && sh.pos == 1 {
		chain = c16Derive(chain, sh.kind)
	}
	switch sh.form {
	case 0:
		chain = chain.Assign(Item{Score: b})
	case 1:
		chain = chain.Assign(map[string]interface{}{"score": b})
	case 2:
		chain = chain.Assign("score", b)
	}
	if sh.kind != 0 && sh.pos == 2 {
		chain = c16Derive(chain, sh.kind)
	}
	var rec Item
	var res *gorm.DB
	if sh.create {
		res = chain.FirstOrCreate(&rec)
	} else {
		res = chain.FirstOrInit(&rec)
	}
	verifrt.Reach("done")
	verifrt.Observe("err", res.Error)
	verifrt.Observe("rec", rec)
	verifrt.Observe("log", s.Kinds())
	if s.FaultAt == 1 {
		// the lookup failed: the error is returned and nothing is written
		verifrt.Assert(errors.Is(res.Error, errInjected), "C16.lookup-error-swallowed")
		verifrt.Assert(s.Count("EXEC") == 0, "C16.write-after-failed-lookup")
		return
	}
	if s.FaultAt == 2 && s.Calls() >= 2 {
		verifrt.Assert(errors.Is(res.Error, errInjected), "C16.write-error-swallowed")
		return
	}
	verifrt.Assert(res.Error == nil, "C16.error")
	// struct / key-value forms with zero values carry no information
	aEff := (a != 0 || sh.form != 0) && sh.variant == 0
	bEff := b != 0 || sh.form != 0
	if found {
		// the first match, unchanged, with Assign applied
		verifrt.Assert(rec.ID == 7 && rec.Name == "n" && rec.Age == 70, "C16.found-record-changed")
		if bEff {
			verifrt.Assert(rec.Score == b, "C16.assign-not-applied")
		} else {
			verifrt.Assert(rec.Score == 700, "C16.found-record-changed")
		}
	} else {
		// built from the conditions plus Attrs, with Assign applied
		verifrt.Assert(rec.Name == "n", "C16.conditions-not-applied")
		if aEff {
			verifrt.Assert(rec.Age == a, "C16.attrs-not-applied")
		}
		if bEff {
			verifrt.Assert(rec.Score == b, "C16.assign-not-applied")
		}
	}
	nExec := s.Count("EXEC")
	if !sh.create {
		verifrt.Assert(nExec == 0, "C16.first-or-init-wrote")
		return
	}
	if !found {
		verifrt.Assert(nExec == 1, "C16.first-or-create-writes")
		e := lastExec(s)
		verifrt.Assert(hasPrefix(e.Text, "INSERT INTO `items`"), "C16.first-or-create-not-insert")
		verifrt.Assert(len(e.Args) == 3, "C16.insert-args")
		verifrt.Assert(verifrt.SameValue(e.Args[0], "n"), "C16.insert-name")
		if aEff {
			verifrt.Assert(verifrt.SameValue(e.Args[1], int64(a)), "C16.insert-attrs")
		}
		if bEff {
			verifrt.Assert(verifrt.SameValue(e.Args[2], b), "C16.insert-assign")
		}
	} else if bEff {
		verifrt.Assert(nExec == 1, "C16.first-or-create-writes")
		e := lastExec(s)
		verifrt.Assert(hasPrefix(e.Text, "UPDATE `items` SET `score`=?"), "C16.assign-update")
		verifrt.Assert(verifrt.SameValue(e.Args[0], b), "C16.assign-update-value")
	} else {
		verifrt.Assert(nExec == 0, "C16.first-or-create-writes")
	}
}

func lastExec(s *Store) Event {
	for i := len(s.Log) - 1; i >= 0; i-- {
		if s.Log[i].Kind == "EXEC" {
			return s.Log[i]
		}
	}
	return Event{}
}

// ---- OnConflict rule expansion

var c16Rules = []string{"do-nothing", "do-updates-subset", "update-all", "do-updates-where", "update-all-where", "target-where", "both-where", "do-updates-map", "on-constraint", "update-all-slice"}

func N_C16_OnConflict(tier int) int { return len(c16Rules) }

func H_C16_OnConflict(shape int) {
	rule := c16Rules[shape]
	verifrt.Tag(rule)
	db := openDry(stubDialector{})
	v := verifrt.Int("guard")
	guard := clause.Where{Exprs: []clause.Expression{clause.Gt{Column: "score", Value: v}}}
	cols := []clause.Column{{Name: "id"}}
	var oc clause.OnConflict
	wantSet := []string(nil)
	wantGuard, wantTarget := false, false
	switch rule {
	case "do-nothing":
		oc = clause.OnConflict{DoNothing: true}
	case "do-updates-subset":
		oc = clause.OnConflict{Columns: cols, DoUpdates: clause.AssignmentColumns([]string{"age", "score"})}
		wantSet = []string{"age", "score"}
	case "do-updates-map":
		oc = clause.OnConflict{Columns: cols, DoUpdates: clause.Assignments(map[string]interface{}{"age": v})}
		wantSet = []string{"age"}
	case "update-all", "update-all-slice":
		oc = clause.OnConflict{UpdateAll: true}
		wantSet = []string{"name", "age", "score"}
	case "do-updates-where":
		oc = clause.OnConflict{Columns: cols, DoUpdates: clause.AssignmentColumns([]string{"age"}), Where: guard}
		wantSet, wantGuard = []string{"age"}, true
	case "update-all-where":
		oc = clause.OnConflict{Columns: cols, UpdateAll: true, Where: guard}
		wantSet, wantGuard = []string{"name", "age", "score"}, true
	case "target-where":
		oc = clause.OnConflict{Columns: cols, TargetWhere: guard, DoUpdates: clause.AssignmentColumns([]string{"age"})}
		wantSet, wantTarget = []string{"age"}, true
	case "both-where":
		oc = clause.OnConflict{Columns: cols, TargetWhere: guard, Where: guard, DoUpdates: clause.AssignmentColumns([]string{"age"})}
		wantSet, wantGuard, wantTarget = []string{"age"}, true, true
	case "on-constraint":
		oc = clause.OnConflict{OnConstraint: "items_pkey", DoUpdates: clause.AssignmentColumns([]string{"age"})}
		wantSet = []string{"age"}
	}
	var stmt *gorm.Statement
	if rule == "update-all-slice" {
		stmt = db.Clauses(oc).Create(&[]Item{{ID: 1, Name: "a"}, {ID: 2, Name: "b"}}).Statement
	} else {
		stmt = db.Clauses(oc).Create(&Item{ID: 1, Name: "a", Age: 2, Score: 3}).Statement
	}
	sql := stmt.SQL.String()
	verifrt.Observe("sql", sql)
	verifrt.Assert(stmt.Error == nil, "C16.conflict-error")
	tail, ok := between(sql, " ON CONFLICT ", "")
	verifrt.Assert(ok, "C16.no-on-conflict")
	if rule == "do-nothing" {
		verifrt.Assert(tail == "DO NOTHING", "C16.do-nothing")
		return
	}
	set := setCols(sql)
	verifrt.Assert(sameStrSet(set, wantSet), "C16.conflict-set")
	// the DO UPDATE guard and the conflict-target predicate are rendered where the rule puts them
	afterSet, _ := between(tail, "DO UPDATE SET ", "")
	beforeDo := tail[:indexStr(tail, "DO UPDATE SET ")]
	verifrt.Assert((indexStr(afterSet, " WHERE `score` > ?") >= 0) == wantGuard, "C16.update-guard")
	verifrt.Assert((indexStr(beforeDo, " WHERE `score` > ?") >= 0) == wantTarget, "C16.target-where")
	nGuards := 0
	if wantGuard {
		nGuards++
	}
	if wantTarget {
		nGuards++
	}
	// the guard value is bound once per rendered predicate
	cnt := 0
	for _, x := range stmt.Vars {
		if xi, ok := x.(int); ok && xi == v && nGuards > 0 {
			cnt++
		}
	}
	if nGuards > 0 {
		verifrt.Assert(cnt >= nGuards, "C16.guard-value-not-bound")
	}
}

// ---- Save: full value stored whether or not the key exists; twice equals once

func N_C16_Save(tier int) int { return 4 }

func H_C16_Save(shape int) {
	mode := []string{"new", "existing", "missing-row", "composite-partial-key"}[shape]
	verifrt.Tag("save-" + mode)
	if mode == "composite-partial-key" {
		// a record whose composite key is only partly set has no row yet: it is inserted,
		// never used as the condition of an UPDATE
		s := NewStore()
		db := openReal(stubDialector{}, s, nil)
		d, r := verifrt.Intn("doc", 0, 3), verifrt.Intn("rev", 0, 3)
		verifrt.Assume(verifrt.Or(d == 0, r == 0))
		res := db.Save(&Folder{Doc: d, Rev: r, Name: "f"})
		verifrt.Assert(res.Error == nil, "C16.save-error")
		first, ok := firstStatement(s)
		verifrt.Assert(ok && hasPrefix(first.Text, "INSERT INTO `folders`"), "C16.save-partial-key-not-insert")
		verifrt.Assert(s.Count("EXEC") == 1, "C16.save-partial-key-statements")
		return
	}
	s := NewStore()
	affected := int64(1)
	if mode == "missing-row" {
		affected = 0
	}
	s.OnExec = func(text string, args []driver.Value) Result {
		if hasPrefix(text, "UPDATE") {
			return Result{Affected: affected}
		}
		return Result{LastID: 21, Affected: 1}
	}
	db := openReal(stubDialector{}, s, nil)
	age, score := verifrt.Int("age"), verifrt.Int64("score")
	it := Item{Name: symName("name"), Age: age, Score: score}
	if mode != "new" {
		it.ID = 5
	}
	res := db.Save(&it)
	verifrt.Assert(res.Error == nil, "C16.save-error")
	first := append([]Event{}, s.Log...)
	var execs []Event
	for _, e := range first {
		if e.Kind == "EXEC" {
			execs = append(execs, e)
		}
	}
	verifrt.Observe("log", s.Kinds())
	switch mode {
	case "new":
		verifrt.Assert(len(execs) == 1 && hasPrefix(execs[0].Text, "INSERT INTO `items` (`name`,`age`,`score`) VALUES"), "C16.save-new-not-insert")
		verifrt.Assert(it.ID == 21, "C16.save-key-not-filled")
	case "existing":
		verifrt.Assert(len(execs) == 1 && execs[0].Text == "UPDATE `items` SET `name`=?,`age`=?,`score`=? WHERE `id` = ?", "C16.save-not-full-update")
	case "missing-row":
		verifrt.Assert(len(execs) == 2, "C16.save-no-upsert")
		if len(execs) == 2 {
			verifrt.Assert(hasPrefix(execs[1].Text, "INSERT INTO `items` (`name`,`age`,`score`,`id`) VALUES (?,?,?,?) ON CONFLICT (`id`) DO UPDATE SET `name`=`excluded`.`name`,`age`=`excluded`.`age`,`score`=`excluded`.`score`"), "C16.save-upsert-rule")
		}
	}
	// every column carries the value of the record, zero or not
	main := execs[len(execs)-1]
	verifrt.Assert(len(main.Args) >= 3, "C16.save-args")
	verifrt.Assert(verifrt.SameValue(main.Args[0], it.Name), "C16.save-value")
	verifrt.Assert(verifrt.SameValue(main.Args[1], int64(age)), "C16.save-value")
	verifrt.Assert(verifrt.SameValue(main.Args[2], score), "C16.save-value")
	// saving twice equals saving once: the same statements with the same values
	if mode == "new" {
		return // the second save of a created record is the "existing" case
	}
	n0 := len(s.Log)
	res = db.Save(&it)
	verifrt.Assert(res.Error == nil, "C16.save-error")
	second := s.Log[n0:]
	verifrt.Assert(len(second) == len(first), "C16.save-twice-differs")
	for i := range first {
		if i < len(second) {
			verifrt.Assert(second[i].Kind == first[i].Kind && second[i].Text == first[i].Text, "C16.save-twice-differs")
			verifrt.Assert(verifrt.SameValue(second[i].Args, first[i].Args), "C16.save-twice-differs")
		}
	}
}

// ---- table contents: sequences of Save / upsert / FirstOrCreate / FirstOrInit over a
// small key space, executed on the relational model (validated against SQLite):
// after every operation the table holds exactly the rows the documented rules define

type c16Row struct {
	id, age, score int
	name           string
}

func N_C16_Table(tier int) int {
	if tier > 0 {
		return 3
	}
	return 2
}

func H_C16_Table(shape int) {
	nops := 1 + shape
	narrow := shape >= 2 // three operations: a narrower alphabet
	mdb := NewMemDB()
	items := mdb.AddTable("items", []string{"id", "name", "age", "score"}, []string{"id"})
	model := []c16Row{{1, 10, 5, "a"}, {2, 20, 6, "a"}}
	for _, r := range model {
		items.AddRow(r.id, r.name, r.age, r.score)
	}
	mdb.Snapshot()
	s := NewStore()
	s.OnExecE = mdb.Exec
	s.OnQuery = mdb.Query
	db := openReal(stubDialector{}, s, nil)
	label := "table"
	defer func() { mdb.Dump(label) }()
	find := func(id int) int {
		for i := range model {
			if model[i].id == id {
				return i
			}
		}
		return -1
	}
	nextID := func() int {
		m := 0
		for _, r := range model {
			if r.id > m {
				m = r.id
			}
		}
		return m + 1
	}
	kindNames := []string{"Save", "DoNothing", "DoUpdates", "UpdateAll", "FirstOrCreate", "FirstOrInit"}
	for k := 0; k < nops; k++ {
		tag := "op" + string([]byte{byte('0' + k)})
		kind := verifrt.Concretize(verifrt.Intn(tag+"_kind", 0, 5), 0, 5)
		if narrow {
			verifrt.Assume(kind == 0 || kind == 3 || kind == 4)
		}
		// key: 0 (none given), an existing row (1, 2) or a key without a row (7)
		key := []int{0, 1, 2, 7}[verifrt.Concretize(verifrt.Intn(tag+"_key", 0, 3), 0, 3)]
		if narrow {
			verifrt.Assume(key == 1 || key == 7)
		}
		name := []string{"a", "n"}[verifrt.Concretize(verifrt.Intn(tag+"_name", 0, 1), 0, 1)]
		age := verifrt.Intn(tag+"_age", 0, 2) // zero included: Save and the upsert rules write zero values too
		score := 30 + k
		label += "." + kindNames[kind]
		verifrt.Tag(label)
		n0 := s.Count("EXEC")
		var err error
		var out Item
		switch kind {
		case 0:
			it := Item{ID: uint(key), Name: name, Age: age, Score: int64(score)}
			err = db.Save(&it).Error
			out = it
		case 1, 2, 3:
			oc := clause.OnConflict{DoNothing: true}
			if kind == 2 {
				oc = clause.OnConflict{Columns: []clause.Column{{Name: "id"}}, DoUpdates: clause.AssignmentColumns([]string{"age"})}
			} else if kind == 3 {
				oc = clause.OnConflict{UpdateAll: true}
			}
			it := Item{ID: uint(key), Name: name, Age: age, Score: int64(score)}
			err = db.Clauses(oc).Create(&it).Error
			out = it
		case 4:
			err = db.Where(Item{Name: name}).Attrs(Item{Age: 40}).Assign(Item{Score: int64(score)}).FirstOrCreate(&out).Error
		case 5:
			err = db.Where(Item{Name: name}).Attrs(Item{Age: 40}).Assign(Item{Score: int64(score)}).FirstOrInit(&out).Error
		}
		verifrt.Assert(err == nil, "C16.error:"+label)
		writes := s.Count("EXEC") - n0
		// the reference model
		switch kind {
		case 0, 3:
			if i := find(key); i >= 0 {
				model[i] = c16Row{key, age, score, name}
			} else {
				id := key
				if id == 0 {
					id = nextID()
				}
				model = append(model, c16Row{id, age, score, name})
				verifrt.Assert(int(out.ID) == id, "C16.key-not-filled:"+label)
			}
		case 1:
			if find(key) < 0 {
				id := key
				if id == 0 {
					id = nextID()
				}
				model = append(model, c16Row{id, age, score, name})
			}
		case 2:
			if i := find(key); i >= 0 {
				model[i].age = age
			} else {
				id := key
				if id == 0 {
					id = nextID()
				}
				model = append(model, c16Row{id, age, score, name})
			}
		case 4, 5:
			first := -1
			for i := range model {
				if model[i].name == name && (first < 0 || model[i].id < model[first].id) {
					first = i
				}
			}
			want := c16Row{0, 40, score, name}
			if first >= 0 {
				want = model[first]
				want.score = score
				if kind == 4 {
					model[first].score = score
				}
			} else if kind == 4 {
				want.id = nextID()
				model = append(model, want)
			}
			verifrt.Assert(int(out.ID) == want.id && out.Name == want.name && out.Age == want.age && int(out.Score) == want.score, "C16.returned-record:"+label)
			if kind == 5 {
				verifrt.Assert(writes == 0, "C16.first-or-init-wrote:"+label)
			} else {
				verifrt.Assert(writes <= 1, "C16.first-or-create-writes:"+label)
			}
		}
		verifrt.Reach("op-applied")
		// the table holds exactly the model's rows (in insertion order)
		verifrt.Assert(len(items.rows) == len(model), "C16.table-rows:"+label)
		for i := range model {
			if i >= len(items.rows) {
				break
			}
			r := items.rows[i]
			verifrt.Assert(!r[0].null && r[0].i == model[i].id, "C16.table-rows:"+label)
			verifrt.Assert(r[1].str && r[1].i == internStr(model[i].name), "C16.table-values:"+label)
			verifrt.Assert(!r[2].null && r[2].i == model[i].age, "C16.table-values:"+label)
			verifrt.Assert(!r[3].null && r[3].i == model[i].score, "C16.table-values:"+label)
		}
	}
	verifrt.Observe("log", s.Kinds())
}

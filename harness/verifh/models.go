package verifh

import (
	"context"
	"database/sql"
	"database/sql/driver"
	"errors"
	"reflect"
	"strconv"
	"time"

	"gorm.io/gorm"
	"gorm.io/gorm/schema"
)

// Plain model: integer key, string, ints, permission tags.
type Item struct {
	ID    uint
	Name  string
	Age   int
	Score int64
}

// Soft-delete model.
type Doc struct {
	ID        uint
	Title     string
	Rank      int
	DeletedAt gorm.DeletedAt
}

// Model with tracked times.
type Post struct {
	ID        uint
	Title     string
	Views     int
	CreatedAt time.Time
	UpdatedAt time.Time
}

// ---- association graph (belongs-to, has-one, has-many); many-to-many needs
// reflect.StructOf and is outside every claim.

type Company struct {
	ID   uint
	Name string
}

type Profile struct {
	ID      uint
	OwnerID uint
	Bio     string
}

type Pet struct {
	ID      uint
	OwnerID uint
	Name    string
}

type Owner struct {
	ID        uint
	Name      string
	CompanyID *uint
	Company   *Company
	Profile   Profile
	Pets      []Pet
}

// String primary key (not auto-increment).
type Tagged struct {
	Code string `gorm:"primaryKey"`
	Name string
}

// Table for the condition properties: integer key and three integer columns.
type T3 struct {
	ID uint
	A  int
	B  int
	C  int
}

// Soft-delete twin of T3.
type S3 struct {
	ID        uint
	A         int
	B         int
	C         int
	DeletedAt gorm.DeletedAt
}

// Soft-delete model whose marker is a pointer field.
type S3P struct {
	ID        uint
	A         int
	B         int
	C         int
	DeletedAt *gorm.DeletedAt
}

// Belongs-to a soft-delete model (relation join of C08).
// has-many whose children are soft-deletable (C11: Preload applies the soft-delete scope)
type Binder struct {
	ID     uint
	Name   string
	Sheets []Sheet
}

type Sheet struct {
	ID        uint
	BinderID  uint
	DeletedAt gorm.DeletedAt
}

type Holder struct {
	ID    uint
	Name  string
	DocID uint
	Doc   Doc
}

// One field per permission tag of C10, tracked times, and a create-denied
// column with a database-side default.
type Perm struct {
	ID         uint
	Plain      string
	Num        int
	CreateOnly int    `gorm:"<-:create"`
	UpdateOnly int    `gorm:"<-:update"`
	NoWrite    int    `gorm:"<-:false"`
	ReadOnly   int    `gorm:"->"`
	NoRead     int    `gorm:"->:false"`
	WriteOnly  int    `gorm:"<-;->:false"`
	Ignored    int    `gorm:"-"`
	NoMig      int    `gorm:"-:migration"`
	IgnAll     int    `gorm:"-:all"`
	Serial     string `gorm:"default:(next_serial());->"`
	Stamp      string `gorm:"default:(now_text());<-:update"`
	CreatedAt  time.Time
	UpdatedAt  time.Time
	// tracked update times that may only be written on create
	TouchedMs int64     `gorm:"autoUpdateTime:milli;<-:create"`
	SeenAt    time.Time `gorm:"autoUpdateTime;<-:create"`
	// an embedded struct repeating the Go name of a create-only top-level field
	// (its own column is writable; the top-level one stays create-only)
	Audit PermAudit `gorm:"embedded;embeddedPrefix:audit_"`
}

type PermAudit struct {
	CreateOnly int
}

// ---- eager loading with composite keys (C11)

type Folder struct {
	Doc   int `gorm:"primaryKey;autoIncrement:false"`
	Rev   int `gorm:"primaryKey;autoIncrement:false"`
	Name  string
	Notes []Note `gorm:"foreignKey:FolderDoc,FolderRev;references:Doc,Rev"`
}

type Note struct {
	ID        uint
	FolderDoc int
	FolderRev int
	Text      string
}

type Shelf struct {
	Code  string `gorm:"primaryKey"`
	Zone  string `gorm:"primaryKey"`
	Books []Book `gorm:"foreignKey:ShelfCode,ShelfZone;references:Code,Zone"`
}

type Book struct {
	ID        uint
	ShelfCode string
	ShelfZone string
}

// self-referential belongs-to used through a join + nested preload
type Staff struct {
	ID        uint
	Name      string
	ManagerID *uint
	Manager   *Staff
	Pets      []StaffPet
}

type StaffPet struct {
	ID      uint
	StaffID uint
	Name    string
}

// ---- one model per field kind for the store/load round trip (C03)

type KBool struct {
	ID uint
	V  bool
}
type KInt8 struct {
	ID uint
	V  int8
}
type KInt16 struct {
	ID uint
	V  int16
}
type KInt32 struct {
	ID uint
	V  int32
}
type KInt64 struct {
	ID uint
	V  int64
}
type KInt struct {
	ID uint
	V  int
}
type KPair struct {
	ID uint
	V  int
	W  int
}
type KUint8 struct {
	ID uint
	V  uint8
}
type KUint16 struct {
	ID uint
	V  uint16
}
type KUint32 struct {
	ID uint
	V  uint32
}
type KUint64 struct {
	ID uint
	V  uint64
}
type KString struct {
	ID uint
	V  string
}
type KBytes struct {
	ID uint
	V  []byte
}
type KPtrInt struct {
	ID uint
	V  *int
}
type KPtrString struct {
	ID uint
	V  *string
}
type KNullInt struct {
	ID uint
	V  sql.NullInt64
}
type KNullString struct {
	ID uint
	V  sql.NullString
}
type KTime struct {
	ID uint
	V  time.Time
}
type KUnixInt struct {
	ID uint
	V  int64 `gorm:"serializer:unixtime;type:time"`
}
type KUnixUint struct {
	ID uint
	V  uint `gorm:"serializer:unixtime;type:time"`
}
type KRenamed struct {
	ID uint
	V  int `gorm:"column:other_name"`
}

// custom scanner / valuer: stores an int as its decimal text
type TextInt struct{ N int }

func (t TextInt) Value() (driver.Value, error) { return strconv.Itoa(t.N), nil }
func (t *TextInt) Scan(v interface{}) error {
	switch x := v.(type) {
	case string:
		n, err := strconv.Atoi(x)
		t.N = n
		return err
	case []byte:
		n, err := strconv.Atoi(string(x))
		t.N = n
		return err
	}
	return errors.New("TextInt: unsupported source")
}

type KCustom struct {
	ID uint
	V  TextInt
}

// key back-fill
type Seq3 struct {
	ID   uint `gorm:"autoIncrementIncrement:3"`
	Name string
}

// self-serializing field type (pointer-receiver Scan, value-receiver Value)
// whose representation is filled in place
type CSV struct{ Items []string }

func (c *CSV) Scan(ctx context.Context, field *schema.Field, dst reflect.Value, dbValue interface{}) error {
	var s string
	switch x := dbValue.(type) {
	case string:
		s = x
	case []byte:
		s = string(x)
	default:
		return errors.New("CSV: unsupported source")
	}
	c.Items = c.Items[:0]
	start := 0
	for i := 0; i <= len(s); i++ {
		if i == len(s) || s[i] == ',' {
			c.Items = append(c.Items, s[start:i])
			start = i + 1
		}
	}
	return nil
}

func (c CSV) Value(ctx context.Context, field *schema.Field, dst reflect.Value, fieldValue interface{}) (interface{}, error) {
	out := ""
	for i, it := range c.Items {
		if i > 0 {
			out += ","
		}
		out += it
	}
	return out, nil
}

type KSelf struct {
	ID uint
	V  CSV
}

// belongs-to over a nullable string key (C11: the text "nil" as a key)
type Region struct {
	Code string `gorm:"primaryKey"`
	Name string
}

type Outlet struct {
	ID         uint
	RegionCode *string
	Region     *Region `gorm:"foreignKey:RegionCode;references:Code"`
}

// many-to-many (join table synthesised with reflect.StructOf)
type Lang struct {
	ID   uint
	Name string
}

type Speaker struct {
	ID    uint
	Name  string
	Langs []Lang `gorm:"many2many:speaker_langs"`
}

// database-generated default (C03: defaults come back with RETURNING, in slice order)
type Ticket struct {
	ID    uint
	Title string
	Code  string `gorm:"default:gen_code()"`
	Rank  int    `gorm:"default:7"`
}

// embedded structs with prefixes (C03)
type Addr struct {
	City string
	Zip  int
}
type KEmbedded struct {
	ID   uint
	Addr `gorm:"embedded;embeddedPrefix:addr_"`
	Work Addr  `gorm:"embedded;embeddedPrefix:work_"`
	Home *Addr `gorm:"embedded;embeddedPrefix:home_"`
}

// the same struct embedded twice, its fields renamed by column tags (C03)
type Place struct {
	Town string `gorm:"column:town"`
	Code int    `gorm:"column:pc"`
}
type KEmbeddedTwice struct {
	ID   uint
	Home Place `gorm:"embedded;embeddedPrefix:home_"`
	Work Place `gorm:"embedded;embeddedPrefix:work_"`
}

// default tags (C03)
type KDefault struct {
	ID    uint
	Rank  int    `gorm:"default:7"`
	Label string `gorm:"default:none"`
	On    bool   `gorm:"default:true"`
}

// composite, caller-assigned key (C03)
type KComposite struct {
	A uint   `gorm:"primaryKey;autoIncrement:false"`
	B string `gorm:"primaryKey"`
	V int
}

// auto time variants (C03)
type KAutoTime struct {
	ID        uint
	CreatedAt time.Time
	UpdatedAt int64
	Made      int64 `gorm:"autoCreateTime:milli"`
	Nano      int64 `gorm:"autoUpdateTime:nano"`
	V         int
}

type KFloat struct {
	ID uint
	V  float64
	W  float32
}

type KUnixPtr struct {
	ID uint
	V  *int64  `gorm:"serializer:unixtime;type:time"`
	W  *uint32 `gorm:"serializer:unixtime;type:time"`
}

// polymorphic has-many (C12)
type Toy struct {
	ID        uint
	Name      string
	OwnerID   uint
	OwnerType string
}

type Kid struct {
	ID   uint
	Name string
	Toys []Toy `gorm:"polymorphic:Owner"`
}

// a column spelled like the Go name of another field (C03)
type KCrossNamed struct {
	ID    uint
	Title string `gorm:"column:Name"`
	Name  string `gorm:"column:Label"`
}

// has-many children with a has-one of their own (C05)
type Badge struct {
	ID       uint
	KeeperID uint
	Code     string
}

type Keeper struct {
	ID       uint
	KennelID uint
	Name     string
	Badge    Badge
}

type Kennel struct {
	ID      uint
	Name    string
	Keepers []Keeper
}

// polymorphic has-one on the same toys table (C12)
type Dog struct {
	ID   uint
	Name string
	Toy  Toy `gorm:"polymorphic:Owner"`
}

// belongs-to through a non-primary reference column (C12)
type RegionRef struct {
	ID   uint
	Code string
}

// has many through a reference column that is not the owner's primary key
// (Rack.Boxes: boxes.rackcode -> racks.code)
type Rack struct {
	ID    uint
	Code  string
	Boxes []Box `gorm:"foreignKey:RackCode;references:Code"`
}

type Box struct {
	ID       uint
	RackCode *string
	Name     string
}

type Shop struct {
	ID         uint
	Name       string
	RegionCode string
	Region     *RegionRef `gorm:"foreignKey:RegionCode;references:Code"`
}

package verifh

import (
	"time"

	"gorm.io/gorm"
)

// Plain model: integer key, string, ints, permission tags.
type Item struct {
	ID    uint
	Name  string
	Age   int
	Score int64
}

// Soft-delete model.
type Doc struct {
	ID        uint
	Title     string
	Rank      int
	DeletedAt gorm.DeletedAt
}

// Model with tracked times.
type Post struct {
	ID        uint
	Title     string
	Views     int
	CreatedAt time.Time
	UpdatedAt time.Time
}

// ---- association graph (belongs-to, has-one, has-many); many-to-many needs
// reflect.StructOf and is outside every claim.

type Company struct {
	ID   uint
	Name string
}

type Profile struct {
	ID      uint
	OwnerID uint
	Bio     string
}

type Pet struct {
	ID      uint
	OwnerID uint
	Name    string
}

type Owner struct {
	ID        uint
	Name      string
	CompanyID *uint
	Company   *Company
	Profile   Profile
	Pets      []Pet
}

// String primary key (not auto-increment).
type Tagged struct {
	Code string `gorm:"primaryKey"`
	Name string
}

// Table for the condition properties: integer key and three integer columns.
type T3 struct {
	ID uint
	A  int
	B  int
	C  int
}

// Soft-delete twin of T3.
type S3 struct {
	ID        uint
	A         int
	B         int
	C         int
	DeletedAt gorm.DeletedAt
}

// Belongs-to a soft-delete model (relation join of C08).
type Holder struct {
	ID    uint
	Name  string
	DocID uint
	Doc   Doc
}

// One field per permission tag of C10, tracked times, and a create-denied
// column with a database-side default.
type Perm struct {
	ID         uint
	Plain      string
	Num        int
	CreateOnly int    `gorm:"<-:create"`
	UpdateOnly int    `gorm:"<-:update"`
	NoWrite    int    `gorm:"<-:false"`
	ReadOnly   int    `gorm:"->"`
	NoRead     int    `gorm:"->:false"`
	WriteOnly  int    `gorm:"<-;->:false"`
	Ignored    int    `gorm:"-"`
	NoMig      int    `gorm:"-:migration"`
	IgnAll     int    `gorm:"-:all"`
	Serial     string `gorm:"default:(next_serial());->"`
	Stamp      string `gorm:"default:(now_text());<-:update"`
	CreatedAt  time.Time
	UpdatedAt  time.Time
}

// ---- eager loading with composite keys (C11)

type Folder struct {
	Doc   int    `gorm:"primaryKey;autoIncrement:false"`
	Rev   int    `gorm:"primaryKey;autoIncrement:false"`
	Name  string
	Notes []Note `gorm:"foreignKey:FolderDoc,FolderRev;references:Doc,Rev"`
}

type Note struct {
	ID        uint
	FolderDoc int
	FolderRev int
	Text      string
}

type Shelf struct {
	Code  string `gorm:"primaryKey"`
	Zone  string `gorm:"primaryKey"`
	Books []Book `gorm:"foreignKey:ShelfCode,ShelfZone;references:Code,Zone"`
}

type Book struct {
	ID        uint
	ShelfCode string
	ShelfZone string
}

// self-referential belongs-to used through a join + nested preload
type Staff struct {
	ID        uint
	Name      string
	ManagerID *uint
	Manager   *Staff
	Pets      []StaffPet
}

type StaffPet struct {
	ID      uint
	StaffID uint
	Name    string
}

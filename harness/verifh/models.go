package verifh

import (
	"time"

	"gorm.io/gorm"
)

// Plain model: integer key, string, ints, permission tags.
type Item struct {
	ID    uint
	Name  string
	Age   int
	Score int64
}

// Soft-delete model.
type Doc struct {
	ID        uint
	Title     string
	Rank      int
	DeletedAt gorm.DeletedAt
}

// Model with tracked times.
type Post struct {
	ID        uint
	Title     string
	Views     int
	CreatedAt time.Time
	UpdatedAt time.Time
}

package verifh

import (
	"database/sql"
	"database/sql/driver"

	"gorm.io/gorm"
	"gorm.io/gorm/clause"
	"gorm.io/gorm/internal/verifrt"
)

// C02 — chained conditions select exactly the rows of their logical
// combination. Shapes enumerate the chain (combinator and unit form per
// position); whitespace bytes and keyword letter case of raw units, all
// argument values and the table row are symbolic.

type c02Unit struct {
	query   interface{}
	args    []interface{}
	exp     tv3   // value of the unit as a whole on the row
	members []tv3 // non-nil: Not requires every member to be false
	empty   bool  // adds no condition
}

// wsPair returns the two whitespace strings around a keyword of a raw unit.
// Either both are the plain space (mode bit clear), or they are symbolic bytes
// exactly one of them is a symbolic byte out of {tab, newline, carriage return}
// (tagged, so that findings about non-space delimiters stay distinguishable).
func wsPair(tag string) (string, string) {
	mode := verifrt.Concretize(verifrt.Intn(tag+"_wsmode", 0, 2), 0, 2)
	if mode == 0 {
		return " ", " "
	}
	b := verifrt.Byte(tag + "_w")
	verifrt.Assume(verifrt.And(isSpaceB(b), b != ' '))
	verifrt.Tag("ws:non-space")
	if mode == 1 {
		return string([]byte{b}), " "
	}
	return " ", string([]byte{b})
}

// symbolic letter case of a keyword
func symKW(tag, kw string) string {
	out := make([]byte, len(kw))
	first := verifrt.Bool(tag)
	rest := verifrt.Bool(tag + "r")
	for i := 0; i < len(kw); i++ {
		up := kw[i] &^ 0x20
		bit := rest
		if i == 0 {
			bit = first
		}
		out[i] = verifrt.IteByte(bit, up, up|0x20)
	}
	return string(out)
}

func colCmp(row *sqlRow, col, op string, v int) tv3 {
	cv, cn, _ := row.col(col)
	return cmp3(op, cv, cn, v, false)
}

var c02UnitNames = []string{
	"raw-atom", "raw-or", "raw-and", "raw-or-paren", "raw-and-or", "map1", "map2", "map-nil", "map-in", "struct",
	"eq", "or-expr", "and-expr", "not-expr", "group-or", "named-or", "raw-in", "empty-map", "zero-struct", "group-and-or",
	"group-or-map-raw", "group-or-raw-eq", "group-or-struct-map",
	"lt", "lte", "gt", "gte", "neq", "in-expr", "or-expr-single", "and-expr-single",
	"group-rawor-and", "group-and-rawor",
	"raw-or-quote-adjacent", "raw-or-placeholder-adjacent",
	"group-map-namedor", "group-eq-rawor",
	"neq-in-empty", "map-in-empty", "not-eq-in-empty", "col-empty-list",
}

func c02MakeUnit(kind int, db *gorm.DB, row *sqlRow, tag string) c02Unit {
	x, y, z := verifrt.Int(tag+"_x"), verifrt.Int(tag+"_y"), verifrt.Int(tag+"_z")
	ax, by, cz := colCmp(row, "a", "=", x), colCmp(row, "b", "=", y), colCmp(row, "c", "=", z)
	switch c02UnitNames[kind] {
	case "raw-atom":
		return c02Unit{query: "a = ?", args: []interface{}{x}, exp: ax}
	case "raw-or":
		w1, w2 := wsPair(tag)
		q := "a = ?" + w1 + symKW(tag+"_k", "OR") + w2 + "b = ?"
		return c02Unit{query: q, args: []interface{}{x, y}, exp: tvOr(ax, by)}
	case "raw-and":
		w1, w2 := wsPair(tag)
		q := "a = ?" + w1 + symKW(tag+"_k", "AND") + w2 + "b > ?"
		return c02Unit{query: q, args: []interface{}{x, y}, exp: tvAnd(ax, colCmp(row, "b", ">", y))}
	case "raw-or-paren":
		verifrt.Tag("kw:paren-adjacent")
		q := "a = ? " + symKW(tag+"_k", "OR") + "(b = ?)"
		return c02Unit{query: q, args: []interface{}{x, y}, exp: tvOr(ax, by)}
	case "raw-or-quote-adjacent":
		// the keyword directly followed by a quoted identifier
		verifrt.Tag("kw:quote-adjacent")
		q := "a = ? " + symKW(tag+"_k", "OR") + "`b` = ?"
		return c02Unit{query: q, args: []interface{}{x, y}, exp: tvOr(ax, by)}
	case "raw-or-placeholder-adjacent":
		// the keyword directly after a placeholder
		verifrt.Tag("kw:placeholder-adjacent")
		q := "a = ?" + symKW(tag+"_k", "OR") + " b = ?"
		return c02Unit{query: q, args: []interface{}{x, y}, exp: tvOr(ax, by)}
	case "raw-and-or":
		q := "a = ? " + symKW(tag+"_k1", "AND") + " b = ? " + symKW(tag+"_k2", "OR") + " c = ?"
		return c02Unit{query: q, args: []interface{}{x, y, z}, exp: tvOr(tvAnd(ax, by), cz)}
	case "map1":
		return c02Unit{query: map[string]interface{}{"a": x}, exp: ax}
	case "map2":
		return c02Unit{query: map[string]interface{}{"a": x, "b": y}, exp: tvAnd(ax, by), members: []tv3{ax, by}}
	case "map-nil":
		_, an, _ := row.col("a")
		return c02Unit{query: map[string]interface{}{"a": nil}, exp: tv3{an, !an}}
	case "map-in":
		return c02Unit{query: map[string]interface{}{"a": []int{x, y}}, exp: tvOr(ax, colCmp(row, "a", "=", y))}
	case "struct", "zero-struct":
		if c02UnitNames[kind] == "zero-struct" {
			return c02Unit{query: T3{}, empty: true, exp: tvTrue}
		}
		u := c02Unit{query: T3{A: x, B: y}, exp: tvTrue, members: []tv3{}}
		if x != 0 {
			u.exp = tvAnd(u.exp, ax)
			u.members = append(u.members, ax)
		}
		if y != 0 {
			u.exp = tvAnd(u.exp, by)
			u.members = append(u.members, by)
		}
		u.empty = len(u.members) == 0
		return u
	case "eq":
		return c02Unit{query: clause.Eq{Column: "a", Value: x}, exp: ax}
	case "or-expr":
		return c02Unit{query: clause.Or(clause.Eq{Column: "a", Value: x}, clause.Gt{Column: "b", Value: y}), exp: tvOr(ax, colCmp(row, "b", ">", y))}
	case "and-expr":
		nb := colCmp(row, "b", "<>", y)
		return c02Unit{query: clause.And(clause.Eq{Column: "a", Value: x}, clause.Neq{Column: "b", Value: y}), exp: tvAnd(ax, nb), members: []tv3{ax, nb}}
	case "not-expr":
		return c02Unit{query: clause.Not(clause.Eq{Column: "a", Value: x}), exp: tvNot(ax)}
	case "group-or":
		return c02Unit{query: db.Where("a = ?", x).Or("b = ?", y), exp: tvOr(ax, by)}
	case "group-and-or":
		return c02Unit{query: db.Where("a = ?", x).Where("b = ?", y).Or("c = ?", z), exp: tvOr(tvAnd(ax, by), cz)}
	case "named-or":
		return c02Unit{query: "a = @x " + symKW(tag+"_k", "OR") + " b = @y", args: []interface{}{sql.Named("x", x), sql.Named("y", y)}, exp: tvOr(ax, by)}
	case "lt":
		return c02Unit{query: clause.Lt{Column: "a", Value: x}, exp: colCmp(row, "a", "<", x)}
	case "lte":
		return c02Unit{query: clause.Lte{Column: "a", Value: x}, exp: colCmp(row, "a", "<=", x)}
	case "gt":
		return c02Unit{query: clause.Gt{Column: "a", Value: x}, exp: colCmp(row, "a", ">", x)}
	case "gte":
		return c02Unit{query: clause.Gte{Column: "a", Value: x}, exp: colCmp(row, "a", ">=", x)}
	case "neq":
		return c02Unit{query: clause.Neq{Column: "a", Value: x}, exp: colCmp(row, "a", "<>", x)}
	case "in-expr":
		return c02Unit{query: clause.IN{Column: "a", Values: []interface{}{x, y}}, exp: tvOr(ax, colCmp(row, "a", "=", y))}
	case "or-expr-single":
		return c02Unit{query: clause.Or(clause.Eq{Column: "a", Value: x}), exp: ax}
	case "and-expr-single":
		return c02Unit{query: clause.And(clause.Gt{Column: "b", Value: y}), exp: colCmp(row, "b", ">", y)}
	case "group-rawor-and":
		// a grouped unit whose AND-joined members are raw strings, one of them containing OR
		return c02Unit{query: db.Where("a = ? "+symKW(tag+"_k", "OR")+" b = ?", x, y).Where("c = ?", z), exp: tvAnd(tvOr(ax, by), cz)}
	case "group-and-rawor":
		return c02Unit{query: db.Where("c = ?", z).Where("a = ? "+symKW(tag+"_k", "OR")+" b = ?", x, y), exp: tvAnd(cz, tvOr(ax, by))}
	case "group-map-namedor":
		// a negatable member (map) AND a raw member with named arguments containing OR
		return c02Unit{query: db.Where(map[string]interface{}{"a": x}).Where("b = @p "+symKW(tag+"_k", "OR")+" c = @q", sql.Named("p", y), sql.Named("q", z)),
			exp: tvAnd(ax, tvOr(by, cz)), members: []tv3{ax, tvOr(by, cz)}}
	case "group-eq-rawor":
		// (a unit with a negatable member is negated member by member, like maps and structs)
		return c02Unit{query: db.Where(clause.Eq{Column: "a", Value: x}).Where("b = ? "+symKW(tag+"_k", "OR")+" c = ?", y, z), exp: tvAnd(ax, tvOr(by, cz)), members: []tv3{ax, tvOr(by, cz)}}
	case "group-or-map-raw":
		return c02Unit{query: db.Where(map[string]interface{}{"a": x}).Or("b = ?", y), exp: tvOr(ax, by)}
	case "group-or-raw-eq":
		return c02Unit{query: db.Where("a = ?", x).Or(clause.Eq{Column: "b", Value: y}), exp: tvOr(ax, by)}
	case "group-or-struct-map":
		u := c02Unit{query: db.Where(T3{A: x}).Or(map[string]interface{}{"b": nil}), exp: tvTrue}
		_, bn, _ := row.col("b")
		if x != 0 {
			u.exp = tvOr(ax, tv3{bn, !bn})
		} else {
			u.exp = tv3{bn, !bn}
		}
		return u
	case "raw-in":
		return c02Unit{query: "a IN ?", args: []interface{}{[]int{x, y}}, exp: tvOr(ax, colCmp(row, "a", "=", y))}
	case "empty-map":
		return c02Unit{query: map[string]interface{}{}, empty: true, exp: tvTrue}
	// a list that is empty at run time: no value is IN it, every value is NOT IN it
	case "neq-in-empty":
		return c02Unit{query: clause.Neq{Column: "a", Value: []int{}}, exp: tvTrue}
	case "map-in-empty":
		return c02Unit{query: map[string]interface{}{"a": []int{}}, exp: tv3{false, true}}
	case "not-eq-in-empty":
		return c02Unit{query: clause.Not(clause.Eq{Column: "a", Value: []int{}}), exp: tvTrue}
	case "col-empty-list":
		return c02Unit{query: "a", args: []interface{}{[]int{}}, exp: tv3{false, true}}
	}
	panic("unit kind")
}

// units used at the second and third chain position in the quick tier
var c02QuickSecond = []int{0, 1, 2, 3, 5, 6, 9, 11, 12, 14, 15, 20, 21, 23, 29, 37}

type c02Shape struct {
	comb []int // 0 Where, 1 Or, 2 Not
	unit []int
	fin  int // 0 Find, 1 Count, 2 Update, 3 Delete, 4 Find with inline condition, 5 Find with model key, 6 Delete of a keyed value, 7 Delete with an inline key
}

func c02Shapes(tier int) []c02Shape {
	var r []c02Shape
	nu := len(c02UnitNames)
	for _, c1 := range []int{0, 2} {
		for u1 := 0; u1 < nu; u1++ {
			for fin := 0; fin <= 7; fin++ {
				if tier == 0 && fin > 0 && u1 != 1 && u1 != 9 {
					continue
				}
				r = append(r, c02Shape{comb: []int{c1}, unit: []int{u1}, fin: fin})
			}
			for c2 := 0; c2 <= 2; c2++ {
				for u2 := 0; u2 < nu; u2++ {
					if tier == 0 && !inInts(c02QuickSecond, u2) {
						continue
					}
					r = append(r, c02Shape{comb: []int{c1, c2}, unit: []int{u1, u2}})
				}
			}
		}
	}
	if tier > 0 {
		// three units over subsets
		for _, c1 := range []int{0, 2} {
			for _, u1 := range []int{0, 1, 2, 5, 6, 9, 12, 14} {
				for c2 := 0; c2 <= 2; c2++ {
					for _, u2 := range []int{0, 1, 3, 6, 9, 11, 15, 20} {
						for c3 := 0; c3 <= 2; c3++ {
							for _, u3 := range []int{0, 1, 6} {
								r = append(r, c02Shape{comb: []int{c1, c2, c3}, unit: []int{u1, u2, u3}})
							}
						}
					}
				}
			}
		}
	}
	return r
}

func inInts(xs []int, x int) bool {
	for _, v := range xs {
		if v == x {
			return true
		}
	}
	return false
}

func N_C02_Chain(tier int) int { return len(c02Shapes(tier)) }

// c02Expected combines the units left to right with AND (Where, Not, inline,
// key) and OR (Or) under SQL precedence: a disjunction of conjunctions.
type c02Acc struct {
	groups []tv3 // completed OR-operands
	cur    tv3
	have   bool
}

func (a *c02Acc) and(v tv3) {
	if !a.have {
		a.cur, a.have = v, true
	} else {
		a.cur = tvAnd(a.cur, v)
	}
}
func (a *c02Acc) or(v tv3) {
	if a.have {
		a.groups = append(a.groups, a.cur)
	}
	a.cur, a.have = v, true
}
func (a *c02Acc) value() (tv3, bool) {
	if !a.have {
		return tvTrue, false
	}
	v := a.cur
	for i := len(a.groups) - 1; i >= 0; i-- {
		v = tvOr(a.groups[i], v)
	}
	return v, true
}

func c02Apply(db *gorm.DB, comb int, u c02Unit, acc *c02Acc) *gorm.DB {
	switch comb {
	case 0:
		db = db.Where(u.query, u.args...)
		if !u.empty {
			acc.and(u.exp)
		}
	case 1:
		db = db.Or(u.query, u.args...)
		if !u.empty {
			acc.or(u.exp)
		}
	case 2:
		db = db.Not(u.query, u.args...)
		if !u.empty {
			if u.members != nil {
				v := tvTrue
				for _, m := range u.members {
					v = tvAnd(v, tvNot(m))
				}
				acc.and(v)
			} else {
				acc.and(tvNot(u.exp))
			}
		}
	}
	return db
}

func c02Describe(sh c02Shape) string {
	s := ""
	for i := range sh.comb {
		if i > 0 {
			s += ","
		}
		s += []string{"Where", "Or", "Not"}[sh.comb[i]] + "(" + c02UnitNames[sh.unit[i]] + ")"
	}
	return s + []string{"", ".Count", ".Update", ".Delete", ".Find-inline", ".Find-key", ".Delete-keyed-value", ".Delete-inline-key"}[sh.fin]
}

func c02ShapesMemo(tier int) []c02Shape {
	return verifrt.Memo("c02Shapes"+string([]byte{byte('0' + tier)}), func() interface{} { return c02Shapes(tier) }).([]c02Shape)
}

func H_C02_Chain(shape int) {
	tier := 1
	if shape < len(c02ShapesMemo(0)) {
		tier = 0
	}
	sh := c02ShapesMemo(tier)[shape]
	verifrt.Tag(c02Describe(sh))
	row := newSymRow("id", "a", "b", "c")
	verifrt.Assume(!row.nulls[0]) // the key is never NULL
	base := openDry(stubDialector{})
	db := base.Model(&T3{})
	acc := &c02Acc{}
	for i := range sh.comb {
		u := c02MakeUnit(sh.unit[i], base, row, "u"+string([]byte{byte('0' + i)}))
		if sh.comb[i] == 1 && !acc.have {
			// every earlier unit was empty: the chain effectively starts with Or (outside C02)
			verifrt.Reach("outside-claim:leading-or")
			return
		}
		if sh.comb[i] == 2 && c02UnitNames[sh.unit[i]] == "map-in-empty" {
			// Not of a map whose list is empty is rendered "a IS NOT NULL" (clause.IN.NegationBuild),
			// which is neither reading of a negated empty IN; the property does not say what an
			// empty list means under Not for the map form: outside C02 (DESIGN §4 C02)
			verifrt.Reach("outside-claim:not-map-empty-list")
			return
		}
		db = c02Apply(db, sh.comb[i], u, acc)
	}
	var stmt *gorm.Statement
	switch sh.fin {
	case 0:
		var out []T3
		stmt = db.Find(&out).Statement
	case 1:
		var n int64
		stmt = db.Count(&n).Statement
	case 2:
		stmt = db.Update("c", 1).Statement
	case 3:
		stmt = db.Delete(&T3{}).Statement
	case 4:
		var out []T3
		k := verifrt.Int("inline")
		stmt = db.Find(&out, "c = ?", k).Statement
		acc.and(colCmp(row, "c", "=", k))
	case 5:
		var out T3
		k := verifrt.Intn("key", 1, 1000)
		out.ID = uint(k)
		stmt = db.Find(&out).Statement
		acc.and(colCmp(row, "id", "=", k))
	case 6:
		// the key of the deleted value is one more unit of the combination
		k := verifrt.Intn("key", 1, 1000)
		stmt = db.Delete(&T3{ID: uint(k)}).Statement
		acc.and(colCmp(row, "id", "=", k))
	case 7:
		k := verifrt.Intn("key", 1, 1000)
		stmt = db.Delete(&T3{}, k).Statement
		acc.and(colCmp(row, "id", "=", k))
	}
	verifrt.Reach("built")
	sql := stmt.SQL.String()
	verifrt.Observe("sql", sql)
	want, any := acc.value()
	w, has := whereText(sql)
	if !any {
		if sh.fin == 2 || sh.fin == 3 {
			return // no condition: rejected by the missing-where guard (C09)
		}
		verifrt.Assert(!has, "C02.condition-from-nothing")
		return
	}
	verifrt.Assert(stmt.Error == nil, "C02.error")
	verifrt.Assert(has, "C02.no-where-clause")
	vars := stmt.Vars
	if sh.fin == 2 {
		vars = vars[1:] // the SET value
	}
	got, used := evalWhere(w, vars, row)
	verifrt.Assert(used == len(vars), "C02.bound-values")
	// same rows: TRUE on exactly the rows where the logical combination is TRUE
	verifrt.Assert(verifrt.Iff(got.t, want.t), "C02.rows")
}

// ---- a bare primary-key condition whose key is a driver.Valuer of slice or
// array kind (a UUID-like type): it must behave like a scalar key - the same
// statement shape as with an integer key, the key bound as ONE value.

type uuidKey [2]byte

func (k uuidKey) Value() (driver.Value, error) { return string(k[:]), nil }
func (k *uuidKey) Scan(v interface{}) error {
	switch x := v.(type) {
	case string:
		copy(k[:], x)
	case []byte:
		copy(k[:], x)
	}
	return nil
}

type KV struct {
	ID uuidKey `gorm:"primaryKey"`
	A  int
}

func N_C02_KeyValuer(tier int) int { return 7 }

func H_C02_KeyValuer(shape int) {
	db := openDry(stubDialector{})
	key := uuidKey{verifrt.Byte("k0"), verifrt.Byte("k1")}
	n := verifrt.Intn("n", 1, 1000)
	a := verifrt.Int("a")
	verifrt.Assume(verifrt.And(a != n, a != 1)) // the key is told apart from the other bound values by its value
	verifrt.Assume(n != 1)
	run := func(useKV bool) *gorm.Statement {
		var k interface{} = n
		if useKV {
			k = key
		}
		if useKV {
			var out []KV
			var one KV
			switch shape {
			case 0:
				return db.Where(k).Find(&out).Statement
			case 1:
				return db.Not(k).Find(&out).Statement
			case 2:
				return db.Where("a = ?", a).Or(k).Find(&out).Statement
			case 3:
				return db.Find(&out, k).Statement
			case 4:
				return db.Take(&one, k).Statement
			case 5:
				return db.Delete(&KV{}, k).Statement
			default:
				return db.Where("a = ?", a).Where(k).Model(&KV{}).Update("a", 1).Statement
			}
		}
		var out []T3
		var one T3
		switch shape {
		case 0:
			return db.Where(k).Find(&out).Statement
		case 1:
			return db.Not(k).Find(&out).Statement
		case 2:
			return db.Where("a = ?", a).Or(k).Find(&out).Statement
		case 3:
			return db.Find(&out, k).Statement
		case 4:
			return db.Take(&one, k).Statement
		case 5:
			return db.Delete(&T3{}, k).Statement
		default:
			return db.Where("a = ?", a).Where(k).Model(&T3{}).Update("a", 1).Statement
		}
	}
	want, got := run(false), run(true)
	verifrt.Reach("built")
	ws, gs := want.SQL.String(), got.SQL.String()
	verifrt.Observe("int-key", ws)
	verifrt.Observe("valuer-key", gs)
	verifrt.Assert(want.Error == nil && got.Error == nil, "C02.error")
	// same statement, table name apart
	verifrt.Assert(replaceAll(ws, "`t3s`", "`kvs`") == gs, "C02.key-condition-shape")
	verifrt.Assert(len(want.Vars) == len(got.Vars), "C02.bound-values")
	for i := range want.Vars {
		if i >= len(got.Vars) {
			break
		}
		if verifrt.SameValue(want.Vars[i], n) {
			// where the integer key is bound, the Valuer key is bound, whole
			gk, ok := got.Vars[i].(uuidKey)
			verifrt.Assert(ok && gk == key, "C02.key-not-bound-whole")
		} else {
			verifrt.Assert(verifrt.SameValue(want.Vars[i], got.Vars[i]), "C02.bound-values")
		}
	}
}

func replaceAll(s, old, new string) string {
	out := ""
	for i := 0; i < len(s); {
		if i+len(old) <= len(s) && s[i:i+len(old)] == old {
			out += new
			i += len(old)
		} else {
			out += string(s[i])
			i++
		}
	}
	return out
}

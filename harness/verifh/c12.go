package verifh

import (
	"database/sql/driver"
	"errors"

	"gorm.io/gorm/internal/verifrt"
)

// C12 — association mode keeps stored links, counts and the in-memory value in
// agreement. The database is the memdb relational model (validated against
// SQLite on the natively re-executed witnesses); keys of existing and of named
// target records are symbolic, so which targets coincide with which rows is
// decided by the solver. After every operation of a symbolic sequence the
// link table / foreign keys must equal a reference set model, Count and Find
// must report exactly those links, associated records must survive (unless
// Unscoped), another owner's links must be untouched, and the distinct records
// of the in-memory relation field must be exactly the links.

// reference model: one entry per target row
type c12Row struct {
	id    int
	owner int // has-many / has-one: foreign key (0 = NULL)
	typ   int // polymorphic: owner type (0 = NULL, 1 = "kids", 2 = "dogs")
}

type c12Model struct {
	rows  []c12Row // rows of the target table
	links [][2]int // many-to-many: join rows (owner, target)
}

func (m *c12Model) find(id int) int {
	for i := range m.rows {
		if m.rows[i].id == id { // the solver decides whether keys coincide
			return i
		}
	}
	return -1
}

func (m *c12Model) hasLink(o, t int) int {
	for i := range m.links {
		if m.links[i][0] == o && m.links[i][1] == t {
			return i
		}
	}
	return -1
}

func containsInt(xs []int, v int) bool {
	for _, x := range xs {
		if x == v {
			return true
		}
	}
	return false
}

func c12Label(rel string, kinds []int, unscoped bool) string {
	l := rel
	for _, k := range kinds {
		l += "." + []string{"Append", "Replace", "Delete", "Clear"}[k]
	}
	if unscoped {
		l += ".unscoped"
	}
	return l
}

// sameRows: the table holds exactly the model's rows (ids and foreign keys)
func c12SameRows(t *mtable, idCol, fkCol string, m *c12Model, label string) {
	verifrt.Assert(len(t.rows) == len(m.rows), "C12.rows-lost-or-added:"+label)
	ii, fi := t.colIdx(idCol), -1
	if fkCol != "" {
		fi = t.colIdx(fkCol)
	}
	for _, r := range t.rows {
		found := false
		for _, e := range m.rows {
			same := r[ii].i == e.id
			if fi >= 0 {
				fk := verifrt.Or(verifrt.And(r[fi].null, e.owner == 0), verifrt.And(!r[fi].null, r[fi].i == e.owner))
				same = verifrt.And(same, fk)
			}
			found = verifrt.Or(found, same)
		}
		verifrt.Assert(found, "C12.stored-links:"+label)
	}
}

func c12DistinctIDs(ids []int) []int {
	var out []int
	for _, id := range ids {
		if !containsInt(out, id) {
			out = append(out, id)
		}
	}
	return out
}

// sameSet: got (with duplicates removed) is exactly want
func c12SameSet(got, want []int, label string) {
	g := c12DistinctIDs(got)
	verifrt.Assert(len(g) == len(want), label)
	for _, w := range want {
		verifrt.Assert(containsInt(g, w), label)
	}
}

// ---- has many

// shapes: operations (w = up to two targets, n = one target), initial links
// symbolic (all nine states of the two existing records) or fixed, Unscoped
type c12Shape struct {
	ops      string
	fullInit bool
	unscoped bool
}

var c12Shapes = []c12Shape{
	{"w", true, false}, {"w", true, true}, {"wn", false, false}, {"nw", false, false}, {"nn", false, true},
	// thorough tier
	{"ww", true, false}, {"nnn", false, false}, {"wnn", false, false}, {"ww", false, true},
}

func c12N(tier int) int {
	if tier > 0 {
		return len(c12Shapes)
	}
	return 5
}

// one more shape after the shared ones: two operations on one Association value, the
// first through Unscoped(), the second on the value itself (scoped)
func N_C12_HasMany(tier int) int { return c12N(tier) + 1 }

func H_C12_HasMany(shape int) {
	firstOnly := shape == c12N(verifrt.Tier())
	var sh c12Shape
	if firstOnly {
		sh = c12Shape{"nn", false, true}
	} else {
		sh = c12Shapes[shape]
	}
	nops, unscoped := len(sh.ops), sh.unscoped
	mdb := NewMemDB()
	owners := mdb.AddTable("owners", []string{"id", "name", "companyid"}, []string{"id"})
	owners.AddRow(1, "o", nil)
	owners.AddRow(2, "p", nil)
	pets := mdb.AddTable("pets", []string{"id", "ownerid", "name"}, []string{"id"})
	model := &c12Model{}
	o := Owner{ID: 1, Name: "o"}
	// two existing pets (keys 2 and 3), each linked to owner 1, owner 2 or nobody;
	// the keys of the targets named by the operations are symbolic (2..4)
	for k, x := range []int{2, 3} {
		l := []int{1, 2}[k]
		if sh.fullInit {
			l = verifrt.Concretize(verifrt.Intn("linked"+string([]byte{byte('1' + k)}), 0, 2), 0, 2)
		}
		if l == 0 {
			pets.AddRow(x, nil, "e")
		} else {
			pets.AddRow(x, l, "e")
		}
		model.rows = append(model.rows, c12Row{id: x, owner: l})
		if l == 1 {
			o.Pets = append(o.Pets, Pet{ID: uint(x), OwnerID: 1, Name: "e"})
		}
	}
	mdb.Snapshot()
	s := NewStore()
	s.OnExecE = mdb.Exec
	s.OnQuery = mdb.Query
	db := openReal(stubDialector{nullDefault: true}, s, nil)
	var kinds []int
	// the statement trace is replayed on SQLite after native runs (also when an assertion fails)
	defer func() { mdb.Dump(c12Label("has-many", kinds, unscoped)) }()
	assoc := db.Model(&o).Association("Pets")
	assoc = nil
	for k := 0; k < nops; k++ {
		tag := "op" + string([]byte{byte('0' + k)})
		kind := verifrt.Concretize(verifrt.Intn(tag+"_kind", 0, 3), 0, 3)
		kinds = append(kinds, kind)
		nt := 0
		if kind != 3 {
			nt = 1
			if sh.ops[k] == 'w' {
				nt = verifrt.Concretize(verifrt.Intn(tag+"_targets", 1, 2), 1, 2)
			}
		}
		vals := make([]*Pet, nt)
		args := make([]interface{}, nt)
		for j := range vals {
			if kind != 2 && verifrt.Bool(tag+"_new"+string([]byte{byte('0' + j)})) {
				vals[j] = &Pet{Name: "n"}
			} else {
				vals[j] = &Pet{ID: uint(verifrt.Intn(tag+"_id"+string([]byte{byte('0' + j)}), 2, 4)), Name: "t"}
			}
			args[j] = vals[j]
		}
		label := c12Label("has-many", kinds, unscoped)
		verifrt.Tag(label)
		// the first two operations run on one Association value, the third on a new one
		if assoc == nil || k == 2 {
			assoc = db.Model(&o).Association("Pets")
		}
		a := assoc
		opUnscoped := unscoped && (!firstOnly || k == 0)
		if opUnscoped {
			a = a.Unscoped()
		}
		var err error
		switch kind {
		case 0:
			err = a.Append(args...)
		case 1:
			err = a.Replace(args...)
		case 2:
			err = a.Delete(args...)
		case 3:
			err = a.Clear()
		}
		verifrt.Assert(err == nil, "C12.error:"+label)
		// reference model
		var ids []int
		for _, v := range vals {
			verifrt.Assert(v.ID != 0, "C12.target-without-key:"+label)
			ids = append(ids, int(v.ID))
		}
		unlink := func(i int) {
			if opUnscoped {
				model.rows = append(model.rows[:i:i], model.rows[i+1:]...)
			} else {
				model.rows[i].owner = 0
			}
		}
		switch kind {
		case 0, 1:
			if kind == 1 {
				for i := len(model.rows) - 1; i >= 0; i-- {
					if model.rows[i].owner == 1 && !containsInt(ids, model.rows[i].id) {
						unlink(i)
					}
				}
			}
			for _, id := range ids {
				if i := model.find(id); i >= 0 {
					model.rows[i].owner = 1
				} else {
					model.rows = append(model.rows, c12Row{id: id, owner: 1})
				}
			}
		case 2:
			for _, id := range ids {
				if i := model.find(id); i >= 0 && model.rows[i].owner == 1 {
					unlink(i)
				}
			}
		case 3:
			for i := len(model.rows) - 1; i >= 0; i-- {
				if model.rows[i].owner == 1 {
					unlink(i)
				}
			}
		}
		verifrt.Reach("op-applied")
		// stored links and surviving records
		c12SameRows(pets, "id", "ownerid", model, label)
		var want []int
		for _, e := range model.rows {
			if e.owner == 1 {
				want = append(want, e.id)
			}
		}
		// Count and Find report exactly those links
		n := db.Model(&Owner{ID: 1}).Association("Pets").Count()
		verifrt.Assert(n == int64(len(want)), "C12.count:"+label)
		verifrt.Assert(a.Count() == n, "C12.count-on-used-value:"+label)
		var found []Pet
		verifrt.Assert(db.Model(&Owner{ID: 1}).Association("Pets").Find(&found) == nil, "C12.error:"+label)
		var got []int
		for _, p := range found {
			got = append(got, int(p.ID))
		}
		verifrt.Assert(len(got) == len(want), "C12.find:"+label)
		c12SameSet(got, want, "C12.find:"+label)
		// the in-memory relation field of the record that received every operation
		var mem []int
		for _, p := range o.Pets {
			mem = append(mem, int(p.ID))
		}
		c12SameSet(mem, want, "C12.in-memory:"+label)
		verifrt.Observe("links", len(want))
	}
	verifrt.Observe("log", s.Kinds())
}

// ---- polymorphic has many (Kid.Toys through toys.ownerid / toys.ownertype)

func N_C12_Polymorphic(tier int) int { return c12N(tier) }

func H_C12_Polymorphic(shape int) {
	sh := c12Shapes[shape]
	nops, unscoped := len(sh.ops), sh.unscoped
	mdb := NewMemDB()
	owners := mdb.AddTable("kids", []string{"id", "name"}, []string{"id"})
	owners.AddRow(1, "o")
	owners.AddRow(2, "p")
	pets := mdb.AddTable("toys", []string{"id", "name", "ownerid", "ownertype"}, []string{"id"})
	model := &c12Model{}
	o := Kid{ID: 1, Name: "o"}
	// two existing toys (keys 2 and 3), each owned by kid 1, kid 2, by a record of
	// another type with the same key (1, "dogs"), or by nobody
	for k, x := range []int{2, 3} {
		l := []int{1, 3}[k]
		if sh.fullInit {
			l = verifrt.Concretize(verifrt.Intn("linked"+string([]byte{byte('1' + k)}), 0, 3), 0, 3)
		}
		switch l {
		case 0:
			pets.AddRow(x, "e", nil, nil)
			model.rows = append(model.rows, c12Row{id: x})
		case 1, 2:
			pets.AddRow(x, "e", l, "kids")
			model.rows = append(model.rows, c12Row{id: x, owner: l, typ: 1})
		case 3:
			pets.AddRow(x, "e", 1, "dogs")
			model.rows = append(model.rows, c12Row{id: x, owner: 1, typ: 2})
		}
		if l == 1 {
			o.Toys = append(o.Toys, Toy{ID: uint(x), OwnerID: 1, OwnerType: "kids", Name: "e"})
		}
	}
	mdb.Snapshot()
	s := NewStore()
	s.OnExecE = mdb.Exec
	s.OnQuery = mdb.Query
	db := openReal(stubDialector{nullDefault: true}, s, nil)
	var kinds []int
	// the statement trace is replayed on SQLite after native runs (also when an assertion fails)
	defer func() { mdb.Dump(c12Label("polymorphic", kinds, unscoped)) }()
	assoc := db.Model(&o).Association("Toys")
	assoc = nil
	for k := 0; k < nops; k++ {
		tag := "op" + string([]byte{byte('0' + k)})
		kind := verifrt.Concretize(verifrt.Intn(tag+"_kind", 0, 3), 0, 3)
		kinds = append(kinds, kind)
		nt := 0
		if kind != 3 {
			nt = 1
			if sh.ops[k] == 'w' {
				nt = verifrt.Concretize(verifrt.Intn(tag+"_targets", 1, 2), 1, 2)
			}
		}
		vals := make([]*Toy, nt)
		args := make([]interface{}, nt)
		for j := range vals {
			if kind != 2 && verifrt.Bool(tag+"_new"+string([]byte{byte('0' + j)})) {
				vals[j] = &Toy{Name: "n"}
			} else {
				vals[j] = &Toy{ID: uint(verifrt.Intn(tag+"_id"+string([]byte{byte('0' + j)}), 2, 4)), Name: "t"}
			}
			args[j] = vals[j]
		}
		label := c12Label("polymorphic", kinds, unscoped)
		verifrt.Tag(label)
		// the first two operations run on one Association value, the third on a new one
		if assoc == nil || k == 2 {
			assoc = db.Model(&o).Association("Toys")
		}
		a := assoc
		if unscoped {
			a = a.Unscoped()
		}
		var err error
		switch kind {
		case 0:
			err = a.Append(args...)
		case 1:
			err = a.Replace(args...)
		case 2:
			err = a.Delete(args...)
		case 3:
			err = a.Clear()
		}
		verifrt.Assert(err == nil, "C12.error:"+label)
		// reference model
		var ids []int
		for _, v := range vals {
			verifrt.Assert(v.ID != 0, "C12.target-without-key:"+label)
			ids = append(ids, int(v.ID))
		}
		unlink := func(i int) {
			if unscoped {
				model.rows = append(model.rows[:i:i], model.rows[i+1:]...)
			} else {
				model.rows[i].owner = 0
			}
		}
		switch kind {
		case 0, 1:
			if kind == 1 {
				for i := len(model.rows) - 1; i >= 0; i-- {
					if model.rows[i].owner == 1 && model.rows[i].typ == 1 && !containsInt(ids, model.rows[i].id) {
						unlink(i)
					}
				}
			}
			for _, id := range ids {
				if i := model.find(id); i >= 0 {
					model.rows[i].owner, model.rows[i].typ = 1, 1
				} else {
					model.rows = append(model.rows, c12Row{id: id, owner: 1, typ: 1})
				}
			}
		case 2:
			for _, id := range ids {
				if i := model.find(id); i >= 0 && model.rows[i].owner == 1 && model.rows[i].typ == 1 {
					unlink(i)
				}
			}
		case 3:
			for i := len(model.rows) - 1; i >= 0; i-- {
				if model.rows[i].owner == 1 && model.rows[i].typ == 1 {
					unlink(i)
				}
			}
		}
		verifrt.Reach("op-applied")
		// stored links and surviving records
		c12SameRows(pets, "id", "ownerid", model, label)
		// the type column: "kids" on every row that is or was linked to a kid, untouched elsewhere
		ti, ii := pets.colIdx("ownertype"), pets.colIdx("id")
		for _, r := range pets.rows {
			for _, e := range model.rows {
				if r[ii].i == e.id {
					want := []string{"", "kids", "dogs"}[e.typ]
					if e.typ == 0 {
						verifrt.Assert(r[ti].null, "C12.stored-links:"+label)
					} else {
						verifrt.Assert(!r[ti].null && r[ti].i == internStr(want), "C12.stored-links:"+label)
					}
				}
			}
		}
		var want []int
		for _, e := range model.rows {
			if e.owner == 1 && e.typ == 1 {
				want = append(want, e.id)
			}
		}
		// Count and Find report exactly those links
		n := db.Model(&Kid{ID: 1}).Association("Toys").Count()
		verifrt.Assert(n == int64(len(want)), "C12.count:"+label)
		verifrt.Assert(a.Count() == n, "C12.count-on-used-value:"+label)
		var found []Toy
		verifrt.Assert(db.Model(&Kid{ID: 1}).Association("Toys").Find(&found) == nil, "C12.error:"+label)
		var got []int
		for _, p := range found {
			got = append(got, int(p.ID))
		}
		verifrt.Assert(len(got) == len(want), "C12.find:"+label)
		c12SameSet(got, want, "C12.find:"+label)
		// the in-memory relation field of the record that received every operation
		var mem []int
		for _, p := range o.Toys {
			mem = append(mem, int(p.ID))
		}
		c12SameSet(mem, want, "C12.in-memory:"+label)
		verifrt.Observe("links", len(want))
	}
	verifrt.Observe("log", s.Kinds())
}

// ---- many to many

func N_C12_Many2Many(tier int) int { return c12N(tier) }

func H_C12_Many2Many(shape int) {
	sh := c12Shapes[shape]
	if sh.unscoped {
		return // join rows are always removed physically; Unscoped adds nothing here
	}
	nops := len(sh.ops)
	mdb := NewMemDB()
	speakers := mdb.AddTable("speakers", []string{"id", "name"}, []string{"id"})
	speakers.AddRow(1, "s")
	speakers.AddRow(2, "t")
	langs := mdb.AddTable("langs", []string{"id", "name"}, []string{"id"})
	join := mdb.AddTable("speaker_langs", []string{"speakerid", "langid"}, []string{"speakerid", "langid"})
	model := &c12Model{}
	sp := Speaker{ID: 1, Name: "s"}
	for k, x := range []int{2, 3} {
		langs.AddRow(x, "e")
		model.rows = append(model.rows, c12Row{id: x})
		// linked to speaker 1 and/or speaker 2
		l := []int{3, 2}[k]
		if sh.fullInit {
			l = verifrt.Concretize(verifrt.Intn("linked"+string([]byte{byte('1' + k)}), 0, 3), 0, 3)
		}
		if l&1 != 0 {
			join.AddRow(1, x)
			model.links = append(model.links, [2]int{1, x})
			sp.Langs = append(sp.Langs, Lang{ID: uint(x), Name: "e"})
		}
		if l&2 != 0 {
			join.AddRow(2, x)
			model.links = append(model.links, [2]int{2, x})
		}
	}
	mdb.Snapshot()
	s := NewStore()
	s.OnExecE = mdb.Exec
	s.OnQuery = mdb.Query
	db := openReal(stubDialector{nullDefault: true}, s, nil)
	var kinds []int
	defer func() { mdb.Dump(c12Label("many2many", kinds, false)) }()
	assoc := db.Model(&sp).Association("Langs")
	assoc = nil
	for k := 0; k < nops; k++ {
		tag := "op" + string([]byte{byte('0' + k)})
		kind := verifrt.Concretize(verifrt.Intn(tag+"_kind", 0, 3), 0, 3)
		kinds = append(kinds, kind)
		nt := 0
		if kind != 3 {
			nt = 1
			if sh.ops[k] == 'w' {
				nt = verifrt.Concretize(verifrt.Intn(tag+"_targets", 1, 2), 1, 2)
			}
		}
		vals := make([]*Lang, nt)
		args := make([]interface{}, nt)
		for j := range vals {
			if kind != 2 && verifrt.Bool(tag+"_new"+string([]byte{byte('0' + j)})) {
				vals[j] = &Lang{Name: "n"}
			} else {
				vals[j] = &Lang{ID: uint(verifrt.Intn(tag+"_id"+string([]byte{byte('0' + j)}), 2, 4)), Name: "t"}
			}
			args[j] = vals[j]
		}
		label := c12Label("many2many", kinds, false)
		verifrt.Tag(label)
		// the first two operations run on one Association value, the third on a new one
		if assoc == nil || k == 2 {
			assoc = db.Model(&sp).Association("Langs")
		}
		a := assoc
		var err error
		switch kind {
		case 0:
			err = a.Append(args...)
		case 1:
			err = a.Replace(args...)
		case 2:
			err = a.Delete(args...)
		case 3:
			err = a.Clear()
		}
		verifrt.Assert(err == nil, "C12.error:"+label)
		var ids []int
		for _, v := range vals {
			verifrt.Assert(v.ID != 0, "C12.target-without-key:"+label)
			ids = append(ids, int(v.ID))
		}
		dropLinks := func(keep []int) {
			var nl [][2]int
			for _, l := range model.links {
				if l[0] != 1 || containsInt(keep, l[1]) {
					nl = append(nl, l)
				}
			}
			model.links = nl
		}
		switch kind {
		case 0, 1:
			if kind == 1 {
				dropLinks(ids)
			}
			for _, id := range ids {
				if model.find(id) < 0 {
					model.rows = append(model.rows, c12Row{id: id})
				}
				if model.hasLink(1, id) < 0 {
					model.links = append(model.links, [2]int{1, id})
				}
			}
		case 2:
			for _, id := range ids {
				if i := model.hasLink(1, id); i >= 0 {
					model.links = append(model.links[:i:i], model.links[i+1:]...)
				}
			}
		case 3:
			dropLinks(nil)
		}
		verifrt.Reach("op-applied")
		// associated records survive; join rows are exactly the model's links
		c12SameRows(langs, "id", "", model, label)
		verifrt.Assert(len(join.rows) == len(model.links), "C12.stored-links:"+label)
		si, li := join.colIdx("speakerid"), join.colIdx("langid")
		for _, r := range join.rows {
			found := false
			for _, l := range model.links {
				found = verifrt.Or(found, verifrt.And(r[si].i == l[0], r[li].i == l[1]))
			}
			verifrt.Assert(found, "C12.stored-links:"+label)
		}
		var want []int
		for _, l := range model.links {
			if l[0] == 1 {
				want = append(want, l[1])
			}
		}
		n := db.Model(&Speaker{ID: 1}).Association("Langs").Count()
		verifrt.Assert(n == int64(len(want)), "C12.count:"+label)
		verifrt.Assert(a.Count() == n, "C12.count-on-used-value:"+label)
		var found []Lang
		verifrt.Assert(db.Model(&Speaker{ID: 1}).Association("Langs").Find(&found) == nil, "C12.error:"+label)
		var got []int
		for _, p := range found {
			got = append(got, int(p.ID))
		}
		verifrt.Assert(len(got) == len(want), "C12.find:"+label)
		c12SameSet(got, want, "C12.find:"+label)
		var mem []int
		for _, p := range sp.Langs {
			mem = append(mem, int(p.ID))
		}
		c12SameSet(mem, want, "C12.in-memory:"+label)
		verifrt.Observe("links", len(want))
	}
	verifrt.Observe("log", s.Kinds())
}

// ---- has one (Owner.Profile through profiles.ownerid)

func N_C12_HasOne(tier int) int { return c12N(tier) }

func H_C12_HasOne(shape int) {
	sh := c12Shapes[shape]
	nops, unscoped := len(sh.ops), sh.unscoped
	mdb := NewMemDB()
	owners := mdb.AddTable("owners", []string{"id", "name", "companyid"}, []string{"id"})
	owners.AddRow(1, "o", nil)
	owners.AddRow(2, "p", nil)
	profiles := mdb.AddTable("profiles", []string{"id", "ownerid", "bio"}, []string{"id"})
	model := &c12Model{}
	o := Owner{ID: 1, Name: "o"}
	// existing profiles 2 and 3: owner 1 has at most one of them
	l1, l2 := 1, 2
	if sh.fullInit {
		l1 = verifrt.Concretize(verifrt.Intn("linked1", 0, 2), 0, 2)
		l2 = verifrt.Concretize(verifrt.Intn("linked2", 0, 2), 0, 2)
		verifrt.Assume(!(l1 == 1 && l2 == 1))
		verifrt.Assume(!(l1 == 2 && l2 == 2))
	}
	for k, x := range []int{2, 3} {
		l := []int{l1, l2}[k]
		if l == 0 {
			profiles.AddRow(x, nil, "e")
		} else {
			profiles.AddRow(x, l, "e")
		}
		model.rows = append(model.rows, c12Row{id: x, owner: l})
		if l == 1 {
			o.Profile = Profile{ID: uint(x), OwnerID: 1, Bio: "e"}
		}
	}
	mdb.Snapshot()
	s := NewStore()
	s.OnExecE = mdb.Exec
	s.OnQuery = mdb.Query
	db := openReal(stubDialector{nullDefault: true}, s, nil)
	var kinds []int
	defer func() { mdb.Dump(c12Label("has-one", kinds, unscoped)) }()
	assoc := db.Model(&o).Association("Profile")
	assoc = nil
	for k := 0; k < nops; k++ {
		tag := "op" + string([]byte{byte('0' + k)})
		kind := verifrt.Concretize(verifrt.Intn(tag+"_kind", 0, 3), 0, 3)
		kinds = append(kinds, kind)
		nt := 0
		if kind != 3 {
			nt = 1
			if kind == 2 && sh.ops[k] == 'w' {
				nt = verifrt.Concretize(verifrt.Intn(tag+"_targets", 1, 2), 1, 2)
			}
		}
		vals := make([]*Profile, nt)
		args := make([]interface{}, nt)
		for j := range vals {
			if kind != 2 && verifrt.Bool(tag+"_new"+string([]byte{byte('0' + j)})) {
				vals[j] = &Profile{Bio: "n"}
			} else {
				vals[j] = &Profile{ID: uint(verifrt.Intn(tag+"_id"+string([]byte{byte('0' + j)}), 2, 4)), Bio: "t"}
			}
			args[j] = vals[j]
		}
		label := c12Label("has-one", kinds, unscoped)
		verifrt.Tag(label)
		// the first two operations run on one Association value, the third on a new one
		if assoc == nil || k == 2 {
			assoc = db.Model(&o).Association("Profile")
		}
		a := assoc
		if unscoped {
			a = a.Unscoped()
		}
		var err error
		switch kind {
		case 0:
			err = a.Append(args...)
		case 1:
			err = a.Replace(args...)
		case 2:
			err = a.Delete(args...)
		case 3:
			err = a.Clear()
		}
		verifrt.Assert(err == nil, "C12.error:"+label)
		var ids []int
		for _, v := range vals {
			verifrt.Assert(v.ID != 0, "C12.target-without-key:"+label)
			ids = append(ids, int(v.ID))
		}
		unlink := func(i int) {
			if unscoped {
				model.rows = append(model.rows[:i:i], model.rows[i+1:]...)
			} else {
				model.rows[i].owner = 0
			}
		}
		switch kind {
		case 0, 1: // has one: Append sets the one link, like Replace
			for i := len(model.rows) - 1; i >= 0; i-- {
				if model.rows[i].owner == 1 && !containsInt(ids, model.rows[i].id) {
					unlink(i)
				}
			}
			for _, id := range ids {
				if i := model.find(id); i >= 0 {
					model.rows[i].owner = 1
				} else {
					model.rows = append(model.rows, c12Row{id: id, owner: 1})
				}
			}
		case 2:
			for _, id := range ids {
				if i := model.find(id); i >= 0 && model.rows[i].owner == 1 {
					unlink(i)
				}
			}
		case 3:
			for i := len(model.rows) - 1; i >= 0; i-- {
				if model.rows[i].owner == 1 {
					unlink(i)
				}
			}
		}
		verifrt.Reach("op-applied")
		c12SameRows(profiles, "id", "ownerid", model, label)
		link := 0
		for _, e := range model.rows {
			if e.owner == 1 {
				link = e.id
			}
		}
		want := int64(0)
		if link != 0 {
			want = 1
		}
		n := db.Model(&Owner{ID: 1}).Association("Profile").Count()
		verifrt.Assert(n == want, "C12.count:"+label)
		verifrt.Assert(a.Count() == n, "C12.count-on-used-value:"+label)
		var found Profile
		verifrt.Assert(db.Model(&Owner{ID: 1}).Association("Profile").Find(&found) == nil, "C12.error:"+label)
		verifrt.Assert(int(found.ID) == link, "C12.find:"+label)
		verifrt.Assert(int(o.Profile.ID) == link, "C12.in-memory:"+label)
		verifrt.Observe("link", link != 0)
	}
	verifrt.Observe("log", s.Kinds())
}

// ---- polymorphic has one (Dog.Toy through toys.ownerid / toys.ownertype)

func N_C12_PolyHasOne(tier int) int { return c12N(tier) }

func H_C12_PolyHasOne(shape int) {
	sh := c12Shapes[shape]
	nops, unscoped := len(sh.ops), sh.unscoped
	mdb := NewMemDB()
	owners := mdb.AddTable("dogs", []string{"id", "name"}, []string{"id"})
	owners.AddRow(1, "o")
	owners.AddRow(2, "p")
	profiles := mdb.AddTable("toys", []string{"id", "name", "ownerid", "ownertype"}, []string{"id"})
	model := &c12Model{}
	o := Dog{ID: 1, Name: "o"}
	// existing toys 2 and 3: owned by dog 1, dog 2, by a record of another type with
	// the same key (1, "kids"), or by nobody; dog 1 has at most one of them
	l1, l2 := 1, 3
	if sh.fullInit {
		l1 = verifrt.Concretize(verifrt.Intn("linked1", 0, 3), 0, 3)
		l2 = verifrt.Concretize(verifrt.Intn("linked2", 0, 3), 0, 3)
		verifrt.Assume(!(l1 == 1 && l2 == 1))
		verifrt.Assume(!(l1 == 2 && l2 == 2))
	}
	for k, x := range []int{2, 3} {
		switch []int{l1, l2}[k] {
		case 0:
			profiles.AddRow(x, "e", nil, nil)
			model.rows = append(model.rows, c12Row{id: x})
		case 1:
			profiles.AddRow(x, "e", 1, "dogs")
			model.rows = append(model.rows, c12Row{id: x, owner: 1, typ: 1})
			o.Toy = Toy{ID: uint(x), OwnerID: 1, OwnerType: "dogs", Name: "e"}
		case 2:
			profiles.AddRow(x, "e", 2, "dogs")
			model.rows = append(model.rows, c12Row{id: x, owner: 2, typ: 1})
		case 3:
			profiles.AddRow(x, "e", 1, "kids")
			model.rows = append(model.rows, c12Row{id: x, owner: 1, typ: 2})
		}
	}
	mdb.Snapshot()
	s := NewStore()
	s.OnExecE = mdb.Exec
	s.OnQuery = mdb.Query
	db := openReal(stubDialector{nullDefault: true}, s, nil)
	var kinds []int
	defer func() { mdb.Dump(c12Label("polymorphic-has-one", kinds, unscoped)) }()
	assoc := db.Model(&o).Association("Toy")
	assoc = nil
	for k := 0; k < nops; k++ {
		tag := "op" + string([]byte{byte('0' + k)})
		kind := verifrt.Concretize(verifrt.Intn(tag+"_kind", 0, 3), 0, 3)
		kinds = append(kinds, kind)
		nt := 0
		if kind != 3 {
			nt = 1
			if kind == 2 && sh.ops[k] == 'w' {
				nt = verifrt.Concretize(verifrt.Intn(tag+"_targets", 1, 2), 1, 2)
			}
		}
		vals := make([]*Toy, nt)
		args := make([]interface{}, nt)
		for j := range vals {
			if kind != 2 && verifrt.Bool(tag+"_new"+string([]byte{byte('0' + j)})) {
				vals[j] = &Toy{Name: "n"}
			} else {
				vals[j] = &Toy{ID: uint(verifrt.Intn(tag+"_id"+string([]byte{byte('0' + j)}), 2, 4)), Name: "t"}
			}
			args[j] = vals[j]
		}
		label := c12Label("polymorphic-has-one", kinds, unscoped)
		verifrt.Tag(label)
		// the first two operations run on one Association value, the third on a new one
		if assoc == nil || k == 2 {
			assoc = db.Model(&o).Association("Toy")
		}
		a := assoc
		if unscoped {
			a = a.Unscoped()
		}
		var err error
		switch kind {
		case 0:
			err = a.Append(args...)
		case 1:
			err = a.Replace(args...)
		case 2:
			err = a.Delete(args...)
		case 3:
			err = a.Clear()
		}
		verifrt.Assert(err == nil, "C12.error:"+label)
		var ids []int
		for _, v := range vals {
			verifrt.Assert(v.ID != 0, "C12.target-without-key:"+label)
			ids = append(ids, int(v.ID))
		}
		unlink := func(i int) {
			if unscoped {
				model.rows = append(model.rows[:i:i], model.rows[i+1:]...)
			} else {
				model.rows[i].owner = 0
			}
		}
		switch kind {
		case 0, 1: // has one: Append sets the one link, like Replace
			for i := len(model.rows) - 1; i >= 0; i-- {
				if model.rows[i].owner == 1 && model.rows[i].typ == 1 && !containsInt(ids, model.rows[i].id) {
					unlink(i)
				}
			}
			for _, id := range ids {
				if i := model.find(id); i >= 0 {
					model.rows[i].owner, model.rows[i].typ = 1, 1
				} else {
					model.rows = append(model.rows, c12Row{id: id, owner: 1, typ: 1})
				}
			}
		case 2:
			for _, id := range ids {
				if i := model.find(id); i >= 0 && model.rows[i].owner == 1 && model.rows[i].typ == 1 {
					unlink(i)
				}
			}
		case 3:
			for i := len(model.rows) - 1; i >= 0; i-- {
				if model.rows[i].owner == 1 && model.rows[i].typ == 1 {
					unlink(i)
				}
			}
		}
		verifrt.Reach("op-applied")
		c12SameRows(profiles, "id", "ownerid", model, label)
		ti, ii := profiles.colIdx("ownertype"), profiles.colIdx("id")
		for _, r := range profiles.rows {
			for _, e := range model.rows {
				if r[ii].i == e.id {
					if e.typ == 0 {
						verifrt.Assert(r[ti].null, "C12.stored-links:"+label)
					} else {
						verifrt.Assert(!r[ti].null && r[ti].i == internStr([]string{"", "dogs", "kids"}[e.typ]), "C12.stored-links:"+label)
					}
				}
			}
		}
		link := 0
		for _, e := range model.rows {
			if e.owner == 1 && e.typ == 1 {
				link = e.id
			}
		}
		want := int64(0)
		if link != 0 {
			want = 1
		}
		n := db.Model(&Dog{ID: 1}).Association("Toy").Count()
		verifrt.Assert(n == want, "C12.count:"+label)
		verifrt.Assert(a.Count() == n, "C12.count-on-used-value:"+label)
		var found Toy
		verifrt.Assert(db.Model(&Dog{ID: 1}).Association("Toy").Find(&found) == nil, "C12.error:"+label)
		verifrt.Assert(int(found.ID) == link, "C12.find:"+label)
		verifrt.Assert(int(o.Toy.ID) == link, "C12.in-memory:"+label)
		verifrt.Observe("link", link != 0)
	}
	verifrt.Observe("log", s.Kinds())
}

// ---- belongs to (Owner.Company through owners.companyid)

func N_C12_BelongsTo(tier int) int { return c12N(tier) }

func H_C12_BelongsTo(shape int) {
	sh := c12Shapes[shape]
	nops, unscoped := len(sh.ops), sh.unscoped
	mdb := NewMemDB()
	owners := mdb.AddTable("owners", []string{"id", "name", "companyid"}, []string{"id"})
	companys := mdb.AddTable("companys", []string{"id", "name"}, []string{"id"})
	companys.AddRow(2, "e")
	companys.AddRow(3, "e")
	model := &c12Model{rows: []c12Row{{id: 2}, {id: 3}}}
	// owner 1 belongs to company 2, 3 or none; owner 2 belongs to company 2
	link := 2
	if sh.fullInit {
		link = []int{0, 2, 3}[verifrt.Concretize(verifrt.Intn("linked1", 0, 2), 0, 2)]
	}
	o := Owner{ID: 1, Name: "o"}
	if link == 0 {
		owners.AddRow(1, "o", nil)
	} else {
		owners.AddRow(1, "o", link)
		cid := uint(link)
		o.CompanyID = &cid
		o.Company = &Company{ID: cid, Name: "e"}
	}
	owners.AddRow(2, "p", 2)
	mdb.Snapshot()
	s := NewStore()
	s.OnExecE = mdb.Exec
	s.OnQuery = mdb.Query
	db := openReal(stubDialector{nullDefault: true}, s, nil)
	var kinds []int
	defer func() { mdb.Dump(c12Label("belongs-to", kinds, unscoped)) }()
	assoc := db.Model(&o).Association("Company")
	assoc = nil
	for k := 0; k < nops; k++ {
		tag := "op" + string([]byte{byte('0' + k)})
		kind := verifrt.Concretize(verifrt.Intn(tag+"_kind", 0, 3), 0, 3)
		kinds = append(kinds, kind)
		nt := 0
		if kind != 3 {
			nt = 1
			if kind == 2 && sh.ops[k] == 'w' {
				nt = verifrt.Concretize(verifrt.Intn(tag+"_targets", 1, 2), 1, 2)
			}
		}
		vals := make([]*Company, nt)
		args := make([]interface{}, nt)
		for j := range vals {
			if kind != 2 && verifrt.Bool(tag+"_new"+string([]byte{byte('0' + j)})) {
				vals[j] = &Company{Name: "n"}
			} else {
				vals[j] = &Company{ID: uint(verifrt.Intn(tag+"_id"+string([]byte{byte('0' + j)}), 2, 4)), Name: "t"}
			}
			args[j] = vals[j]
		}
		label := c12Label("belongs-to", kinds, unscoped)
		verifrt.Tag(label)
		// the first two operations run on one Association value, the third on a new one
		if assoc == nil || k == 2 {
			assoc = db.Model(&o).Association("Company")
		}
		a := assoc
		if unscoped {
			a = a.Unscoped()
		}
		var err error
		switch kind {
		case 0:
			err = a.Append(args...)
		case 1:
			err = a.Replace(args...)
		case 2:
			err = a.Delete(args...)
		case 3:
			err = a.Clear()
		}
		verifrt.Assert(err == nil, "C12.error:"+label)
		var ids []int
		for _, v := range vals {
			verifrt.Assert(v.ID != 0, "C12.target-without-key:"+label)
			ids = append(ids, int(v.ID))
		}
		// Unscoped removes the company record the owner pointed to
		dropCompany := func(id int) {
			if unscoped && id != 0 {
				if i := model.find(id); i >= 0 {
					model.rows = append(model.rows[:i:i], model.rows[i+1:]...)
				}
			}
		}
		switch kind {
		case 0, 1:
			old := link
			link = ids[0]
			if model.find(link) < 0 {
				model.rows = append(model.rows, c12Row{id: link})
			}
			if old != link {
				dropCompany(old)
			}
		case 2:
			if containsInt(ids, link) {
				dropCompany(link)
				link = 0
			}
		case 3:
			dropCompany(link)
			link = 0
		}
		verifrt.Reach("op-applied")
		// owner 1 points to the link, owner 2 is untouched, companies survive
		ci := owners.colIdx("companyid")
		for _, r := range owners.rows {
			if r[0].i == 1 {
				verifrt.Assert(verifrt.Or(verifrt.And(r[ci].null, link == 0), verifrt.And(!r[ci].null, r[ci].i == link)), "C12.stored-links:"+label)
			} else if !unscoped {
				verifrt.Assert(verifrt.And(!r[ci].null, r[ci].i == 2), "C12.other-owner-changed:"+label)
			}
		}
		verifrt.Assert(len(owners.rows) == 2, "C12.rows-lost-or-added:"+label)
		c12SameRows(companys, "id", "", model, label)
		want := int64(0)
		if link != 0 {
			want = 1
		}
		probe := Owner{ID: 1}
		if link != 0 {
			cid := uint(link)
			probe.CompanyID = &cid
		}
		n := db.Model(&probe).Association("Company").Count()
		verifrt.Assert(n == want, "C12.count:"+label)
		verifrt.Assert(a.Count() == n, "C12.count-on-used-value:"+label)
		var found Company
		verifrt.Assert(db.Model(&probe).Association("Company").Find(&found) == nil, "C12.error:"+label)
		verifrt.Assert(int(found.ID) == link, "C12.find:"+label)
		// in-memory: foreign key and relation field
		if link == 0 {
			verifrt.Assert(o.CompanyID == nil || *o.CompanyID == 0, "C12.in-memory:"+label)
			verifrt.Assert(o.Company == nil || o.Company.ID == 0, "C12.in-memory:"+label)
		} else {
			verifrt.Assert(o.CompanyID != nil && int(*o.CompanyID) == link, "C12.in-memory:"+label)
			verifrt.Assert(o.Company != nil && int(o.Company.ID) == link, "C12.in-memory:"+label)
		}
		verifrt.Observe("link", link != 0)
	}
	verifrt.Observe("log", s.Kinds())
}

// ---- many to many, operations on a slice of two owner records (Append and
// Replace take one value per record, Delete and Clear apply to every record)

func N_C12_SliceOwners(tier int) int {
	if tier > 0 {
		return 3
	}
	return 2
}

func H_C12_SliceOwners(shape int) { c12SliceOwners(1+shape, shape == 0, false) }

// ---- a statement of the operation is refused by the database: the operation
// reports it (an operation that returns nil has stored the links it defines)

func N_C12_Refused(tier int) int { return 1 }

func H_C12_Refused(shape int) { c12SliceOwners(1, false, true) }

var errRefused = errors.New("verif: statement refused")

func c12SliceOwners(nops int, fullInit bool, faults bool) {
	mdb := NewMemDB()
	speakers := mdb.AddTable("speakers", []string{"id", "name"}, []string{"id"})
	speakers.AddRow(1, "s")
	speakers.AddRow(2, "t")
	speakers.AddRow(3, "u")
	langs := mdb.AddTable("langs", []string{"id", "name"}, []string{"id"})
	join := mdb.AddTable("speaker_langs", []string{"speakerid", "langid"}, []string{"speakerid", "langid"})
	model := &c12Model{}
	sps := []Speaker{{ID: 1, Name: "s"}, {ID: 2, Name: "t"}}
	for k, x := range []int{2, 3} {
		langs.AddRow(x, "e")
		model.rows = append(model.rows, c12Row{id: x})
		// linked to speaker 1, 2 (the records operated on) and/or 3 (a bystander): bits 1, 2, 4
		l := []int{5, 2}[k]
		if fullInit {
			l = verifrt.Concretize(verifrt.Intn("linked"+string([]byte{byte('1' + k)}), 0, 7), 0, 7)
		}
		for o := 1; o <= 3; o++ {
			if l&(1<<uint(o-1)) != 0 {
				join.AddRow(o, x)
				model.links = append(model.links, [2]int{o, x})
				if o <= 2 {
					sps[o-1].Langs = append(sps[o-1].Langs, Lang{ID: uint(x), Name: "e"})
				}
			}
		}
	}
	mdb.Snapshot()
	s := NewStore()
	s.OnExecE = mdb.Exec
	s.OnQuery = mdb.Query
	failAt, execs := 0, 0
	if faults {
		// the failAt-th write statement of the operation is refused (not applied)
		failAt = verifrt.Concretize(verifrt.Intn("fail_at", 1, 6), 1, 6)
		s.OnExecE = func(text string, args []driver.Value) (Result, error) {
			execs++
			if execs == failAt {
				return Result{}, errRefused
			}
			return mdb.Exec(text, args)
		}
	}
	db := openReal(stubDialector{nullDefault: true}, s, nil)
	var kinds []int
	defer func() { mdb.Dump(c12Label("many2many-slice", kinds, false)) }()
	assoc := db.Model(&sps).Association("Langs")
	assoc = nil
	for k := 0; k < nops; k++ {
		tag := "op" + string([]byte{byte('0' + k)})
		kind := verifrt.Concretize(verifrt.Intn(tag+"_kind", 0, 3), 0, 3)
		if faults {
			// Replace on a slice of records is a listed known finding of H_C12_SliceOwners
			verifrt.Assume(kind != 1)
		}
		kinds = append(kinds, kind)
		nt := 0
		switch kind {
		case 0, 1:
			nt = 2 // one value per record
		case 2:
			nt = verifrt.Concretize(verifrt.Intn(tag+"_targets", 1, 2), 1, 2)
		}
		vals := make([]*Lang, nt)
		args := make([]interface{}, nt)
		for j := range vals {
			if kind != 2 && verifrt.Bool(tag+"_new"+string([]byte{byte('0' + j)})) {
				vals[j] = &Lang{Name: "n"}
			} else {
				vals[j] = &Lang{ID: uint(verifrt.Intn(tag+"_id"+string([]byte{byte('0' + j)}), 2, 4)), Name: "t"}
			}
			args[j] = vals[j]
		}
		label := c12Label("many2many-slice", kinds, false)
		verifrt.Tag(label)
		// the first two operations run on one Association value, the third on a new one
		if assoc == nil || k == 2 {
			assoc = db.Model(&sps).Association("Langs")
		}
		a := assoc
		var err error
		switch kind {
		case 0:
			err = a.Append(args...)
		case 1:
			err = a.Replace(args...)
		case 2:
			err = a.Delete(args...)
		case 3:
			err = a.Clear()
		}
		if faults && err != nil {
			verifrt.Reach("refusal-reported")
			return
		}
		verifrt.Assert(err == nil, "C12.error:"+label)
		var ids []int
		for _, v := range vals {
			verifrt.Assert(v.ID != 0, "C12.target-without-key:"+label)
			ids = append(ids, int(v.ID))
		}
		drop := func(owner int, keep []int) {
			var nl [][2]int
			for _, l := range model.links {
				if l[0] != owner || containsInt(keep, l[1]) {
					nl = append(nl, l)
				}
			}
			model.links = nl
		}
		switch kind {
		case 0, 1:
			for o := 1; o <= 2; o++ {
				id := ids[o-1]
				if kind == 1 {
					drop(o, []int{id})
				}
				if model.find(id) < 0 {
					model.rows = append(model.rows, c12Row{id: id})
				}
				if model.hasLink(o, id) < 0 {
					model.links = append(model.links, [2]int{o, id})
				}
			}
		case 2:
			for o := 1; o <= 2; o++ {
				for _, id := range ids {
					if i := model.hasLink(o, id); i >= 0 {
						model.links = append(model.links[:i:i], model.links[i+1:]...)
					}
				}
			}
		case 3:
			drop(1, nil)
			drop(2, nil)
		}
		verifrt.Reach("op-applied")
		c12SameRows(langs, "id", "", model, label)
		verifrt.Assert(len(join.rows) == len(model.links), "C12.stored-links:"+label)
		si, li := join.colIdx("speakerid"), join.colIdx("langid")
		for _, r := range join.rows {
			found := false
			for _, l := range model.links {
				found = verifrt.Or(found, verifrt.And(r[si].i == l[0], r[li].i == l[1]))
			}
			verifrt.Assert(found, "C12.stored-links:"+label)
		}
		// Count over the slice reports the links of its records
		total := 0
		for _, l := range model.links {
			if l[0] <= 2 {
				total++
			}
		}
		n := db.Model(&[]Speaker{{ID: 1}, {ID: 2}}).Association("Langs").Count()
		verifrt.Assert(n == int64(total), "C12.count:"+label)
		verifrt.Assert(a.Count() == n, "C12.count-on-used-value:"+label)
		// the in-memory relation field of each record
		for o := 1; o <= 2; o++ {
			var want, mem []int
			for _, l := range model.links {
				if l[0] == o {
					want = append(want, l[1])
				}
			}
			for _, p := range sps[o-1].Langs {
				mem = append(mem, int(p.ID))
			}
			c12SameSet(mem, want, "C12.in-memory:"+label)
		}
		verifrt.Observe("links", total)
	}
	verifrt.Observe("log", s.Kinds())
}

// ---- belongs to through a reference column that is not the target's primary key
// (Shop.Region: shops.regioncode -> regionrefs.code)

func N_C12_BelongsToRef(tier int) int {
	if tier > 0 {
		return 3
	}
	return 2
}

func H_C12_BelongsToRef(shape int) {
	nops := 1 + shape
	mdb := NewMemDB()
	shops := mdb.AddTable("shops", []string{"id", "name", "regioncode"}, []string{"id"})
	regions := mdb.AddTable("regionrefs", []string{"id", "code"}, []string{"id"})
	regions.AddRow(2, "c2")
	regions.AddRow(3, "c3")
	code := func(id int) string { return "c" + string([]byte{byte('0' + id)}) }
	link := ""
	if shape == 0 {
		link = []string{"", "c2", "c3"}[verifrt.Concretize(verifrt.Intn("linked1", 0, 2), 0, 2)]
	} else {
		link = "c2"
	}
	o := Shop{ID: 1, Name: "s", RegionCode: link}
	if link == "" {
		shops.AddRow(1, "s", nil)
	} else {
		shops.AddRow(1, "s", link)
		o.Region = &RegionRef{ID: uint(link[1] - '0'), Code: link}
	}
	shops.AddRow(2, "t", "c2")
	mdb.Snapshot()
	s := NewStore()
	s.OnExecE = mdb.Exec
	s.OnQuery = mdb.Query
	db := openReal(stubDialector{nullDefault: true}, s, nil)
	var kinds []int
	defer func() { mdb.Dump(c12Label("belongs-to-ref", kinds, false)) }()
	assoc := db.Model(&o).Association("Region")
	assoc = nil
	for k := 0; k < nops; k++ {
		tag := "op" + string([]byte{byte('0' + k)})
		kind := verifrt.Concretize(verifrt.Intn(tag+"_kind", 0, 3), 0, 3)
		kinds = append(kinds, kind)
		var target *RegionRef
		if kind != 3 {
			if kind != 2 && verifrt.Bool(tag+"_new") {
				// a new region with a code of its own
				target = &RegionRef{Code: "n" + string([]byte{byte('0' + k)})}
			} else {
				// an existing region (2, 3) or one that does not exist yet (9); generated keys are 4, 5, 6 and never reach it
				id := []int{2, 3, 9}[verifrt.Concretize(verifrt.Intn(tag+"_id", 0, 2), 0, 2)]
				target = &RegionRef{ID: uint(id), Code: code(id)}
			}
		}
		label := c12Label("belongs-to-ref", kinds, false)
		verifrt.Tag(label)
		// the first two operations run on one Association value, the third on a new one
		if assoc == nil || k == 2 {
			assoc = db.Model(&o).Association("Region")
		}
		a := assoc
		var err error
		switch kind {
		case 0:
			err = a.Append(target)
		case 1:
			err = a.Replace(target)
		case 2:
			err = a.Delete(target)
		case 3:
			err = a.Clear()
		}
		verifrt.Assert(err == nil, "C12.error:"+label)
		switch kind {
		case 0, 1:
			verifrt.Assert(target.ID != 0, "C12.target-without-key:"+label)
			link = target.Code
		case 2:
			if link == target.Code {
				link = ""
			}
		case 3:
			link = ""
		}
		verifrt.Reach("op-applied")
		ci := shops.colIdx("regioncode")
		for _, r := range shops.rows {
			if r[0].i == 1 {
				if link == "" {
					verifrt.Assert(r[ci].null, "C12.stored-links:"+label)
				} else {
					verifrt.Assert(!r[ci].null && r[ci].i == internStr(link), "C12.stored-links:"+label)
				}
			} else {
				verifrt.Assert(!r[ci].null && r[ci].i == internStr("c2"), "C12.other-owner-changed:"+label)
			}
		}
		// regions survive
		verifrt.Assert(len(regions.rows) >= 2, "C12.rows-lost-or-added:"+label)
		want := int64(0)
		if link != "" {
			want = 1
		}
		probe := Shop{ID: 1, RegionCode: link}
		n := db.Model(&probe).Association("Region").Count()
		verifrt.Assert(n == want, "C12.count:"+label)
		verifrt.Assert(a.Count() == n, "C12.count-on-used-value:"+label)
		var found RegionRef
		verifrt.Assert(db.Model(&probe).Association("Region").Find(&found) == nil, "C12.error:"+label)
		verifrt.Assert(found.Code == link, "C12.find:"+label)
		if link == "" {
			verifrt.Assert(o.RegionCode == "" && (o.Region == nil || o.Region.Code == ""), "C12.in-memory:"+label)
		} else {
			verifrt.Assert(o.RegionCode == link && o.Region != nil && o.Region.Code == link, "C12.in-memory:"+label)
		}
		verifrt.Observe("link", link)
	}
	verifrt.Observe("log", s.Kinds())
}

// ---- has many through a reference column that is not the owner's primary key
// (Rack.Boxes: boxes.rackcode -> racks.code); the owner's key (1) differs from
// every value of the reference column

func N_C12_HasManyRef(tier int) int {
	if tier > 0 {
		return 3
	}
	return 2
}

func H_C12_HasManyRef(shape int) {
	nops := 1 + shape
	mdb := NewMemDB()
	racks := mdb.AddTable("racks", []string{"id", "code"}, []string{"id"})
	racks.AddRow(1, "r1")
	racks.AddRow(2, "r2")
	boxes := mdb.AddTable("boxs", []string{"id", "rackcode", "name"}, []string{"id"})
	// box 2 belongs to the rack operated on, box 3 to the other rack or to none
	r1, r2 := "r1", "r2"
	links := map[int]string{2: "r1"} // box id -> rack code ("" = none)
	boxes.AddRow(2, "r1", "b")
	o := Rack{ID: 1, Code: "r1", Boxes: []Box{{ID: 2, RackCode: &r1, Name: "b"}}}
	switch verifrt.Concretize(verifrt.Intn("box3", 0, 2), 0, 2) {
	case 0:
		boxes.AddRow(3, nil, "b")
		links[3] = ""
	case 1:
		boxes.AddRow(3, "r2", "b")
		links[3] = "r2"
	case 2:
		boxes.AddRow(3, "r1", "b")
		links[3] = "r1"
		o.Boxes = append(o.Boxes, Box{ID: 3, RackCode: &r1, Name: "b"})
	}
	_ = r2
	order := []int{2, 3}
	mdb.Snapshot()
	s := NewStore()
	s.OnExecE = mdb.Exec
	s.OnQuery = mdb.Query
	db := openReal(stubDialector{nullDefault: true}, s, nil)
	var kinds []int
	defer func() { mdb.Dump(c12Label("has-many-ref", kinds, false)) }()
	assoc := db.Model(&o).Association("Boxes")
	assoc = nil
	for k := 0; k < nops; k++ {
		tag := "op" + string([]byte{byte('0' + k)})
		kind := verifrt.Concretize(verifrt.Intn(tag+"_kind", 0, 3), 0, 3)
		kinds = append(kinds, kind)
		var target *Box
		if kind != 3 {
			if kind != 2 && verifrt.Bool(tag+"_new") {
				target = &Box{Name: "n"}
			} else {
				id := []int{2, 3}[verifrt.Concretize(verifrt.Intn(tag+"_id", 0, 1), 0, 1)]
				target = &Box{ID: uint(id), Name: "b"}
			}
		}
		label := c12Label("has-many-ref", kinds, false)
		verifrt.Tag(label)
		if assoc == nil || k == 2 {
			assoc = db.Model(&o).Association("Boxes")
		}
		a := assoc
		var err error
		switch kind {
		case 0:
			err = a.Append(target)
		case 1:
			err = a.Replace(target)
		case 2:
			err = a.Delete(target)
		case 3:
			err = a.Clear()
		}
		verifrt.Assert(err == nil, "C12.error:"+label)
		unlinkAll := func(except int) {
			for id, c := range links {
				if c == "r1" && id != except {
					links[id] = ""
				}
			}
		}
		switch kind {
		case 0, 1:
			verifrt.Assert(target.ID != 0, "C12.target-without-key:"+label)
			id := int(target.ID)
			if kind == 1 {
				unlinkAll(id)
			}
			if _, ok := links[id]; !ok {
				order = append(order, id)
			}
			links[id] = "r1"
		case 2:
			if links[int(target.ID)] == "r1" {
				links[int(target.ID)] = ""
			}
		case 3:
			unlinkAll(0)
		}
		verifrt.Reach("op-applied")
		// stored links; boxes survive
		ci := boxes.colIdx("rackcode")
		verifrt.Assert(len(boxes.rows) == len(order), "C12.rows-lost-or-added:"+label)
		for _, r := range boxes.rows {
			c, ok := links[r[0].i]
			verifrt.Assert(ok, "C12.rows-lost-or-added:"+label)
			if c == "" {
				verifrt.Assert(r[ci].null, "C12.stored-links:"+label)
			} else {
				verifrt.Assert(!r[ci].null && r[ci].i == internStr(c), "C12.stored-links:"+label)
			}
		}
		var want []int
		for _, id := range order {
			if links[id] == "r1" {
				want = append(want, id)
			}
		}
		n := db.Model(&Rack{ID: 1, Code: "r1"}).Association("Boxes").Count()
		verifrt.Assert(n == int64(len(want)), "C12.count:"+label)
		verifrt.Assert(a.Count() == n, "C12.count-on-used-value:"+label)
		var found []Box
		verifrt.Assert(db.Model(&Rack{ID: 1, Code: "r1"}).Association("Boxes").Find(&found) == nil, "C12.error:"+label)
		var got []int
		for _, b := range found {
			got = append(got, int(b.ID))
		}
		c12SameSet(got, want, "C12.find:"+label)
		var mem []int
		for _, b := range o.Boxes {
			mem = append(mem, int(b.ID))
		}
		c12SameSet(mem, want, "C12.in-memory:"+label)
		verifrt.Observe("links", len(want))
	}
	verifrt.Observe("log", s.Kinds())
}

// ---- the targets of an operation are elements of the record's own in-memory relation
// field (pointers into its slice, in any order)

func N_C12_OwnElements(tier int) int { return 2 }

func H_C12_OwnElements(shape int) {
	m2m := shape == 1
	mdb := NewMemDB()
	var child *mtable
	var join *mtable
	s := NewStore()
	s.OnExecE = mdb.Exec
	s.OnQuery = mdb.Query
	db := openReal(stubDialector{nullDefault: true}, s, nil)
	kind := verifrt.Concretize(verifrt.Intn("kind", 0, 4), 0, 4)
	names := []string{"Replace-reversed", "Replace-second", "Append-reversed", "Delete-first", "Replace-second-first-third"}
	label := "own-elements." + names[kind]
	if m2m {
		label = "own-elements-many2many." + names[kind]
	}
	verifrt.Tag(label)
	defer func() { mdb.Dump(label) }()
	var want []int
	switch kind {
	case 0, 2:
		want = []int{2, 3, 4}
	case 1:
		want = []int{3}
	case 3:
		want = []int{3, 4}
	case 4:
		want = []int{2, 3, 4}
	}
	if kind == 0 {
		want = []int{3, 2}
	}
	var err error
	var mem []int
	var n int64
	var got []int
	if !m2m {
		owners := mdb.AddTable("owners", []string{"id", "name", "companyid"}, []string{"id"})
		owners.AddRow(1, "o", nil)
		child = mdb.AddTable("pets", []string{"id", "ownerid", "name"}, []string{"id"})
		for _, id := range []int{2, 3, 4} {
			child.AddRow(id, 1, "p")
		}
		mdb.Snapshot()
		o := Owner{ID: 1, Name: "o", Pets: []Pet{{ID: 2, OwnerID: 1, Name: "p"}, {ID: 3, OwnerID: 1, Name: "p"}, {ID: 4, OwnerID: 1, Name: "p"}}}
		a := db.Model(&o).Association("Pets")
		switch kind {
		case 0:
			err = a.Replace(&o.Pets[1], &o.Pets[0])
		case 1:
			err = a.Replace(&o.Pets[1])
		case 2:
			err = a.Append(&o.Pets[2], &o.Pets[0])
		case 3:
			err = a.Delete(&o.Pets[0])
		case 4:
			err = a.Replace(&o.Pets[1], &o.Pets[0], &o.Pets[2])
		}
		for _, p := range o.Pets {
			mem = append(mem, int(p.ID))
		}
		n = db.Model(&Owner{ID: 1}).Association("Pets").Count()
		var found []Pet
		verifrt.Assert(db.Model(&Owner{ID: 1}).Association("Pets").Find(&found) == nil, "C12.error:"+label)
		for _, p := range found {
			got = append(got, int(p.ID))
		}
		// stored links
		ci := child.colIdx("ownerid")
		for _, r := range child.rows {
			linked := !r[ci].null && r[ci].i == 1
			verifrt.Assert(linked == containsInt(want, r[0].i), "C12.stored-links:"+label)
		}
		verifrt.Assert(len(child.rows) == 3, "C12.rows-lost-or-added:"+label)
	} else {
		speakers := mdb.AddTable("speakers", []string{"id", "name"}, []string{"id"})
		speakers.AddRow(1, "s")
		child = mdb.AddTable("langs", []string{"id", "name"}, []string{"id"})
		join = mdb.AddTable("speaker_langs", []string{"speakerid", "langid"}, []string{"speakerid", "langid"})
		for _, id := range []int{2, 3, 4} {
			child.AddRow(id, "e")
			join.AddRow(1, id)
		}
		mdb.Snapshot()
		sp := Speaker{ID: 1, Name: "s", Langs: []Lang{{ID: 2, Name: "e"}, {ID: 3, Name: "e"}, {ID: 4, Name: "e"}}}
		a := db.Model(&sp).Association("Langs")
		switch kind {
		case 0:
			err = a.Replace(&sp.Langs[1], &sp.Langs[0])
		case 1:
			err = a.Replace(&sp.Langs[1])
		case 2:
			err = a.Append(&sp.Langs[2], &sp.Langs[0])
		case 3:
			err = a.Delete(&sp.Langs[0])
		case 4:
			err = a.Replace(&sp.Langs[1], &sp.Langs[0], &sp.Langs[2])
		}
		for _, p := range sp.Langs {
			mem = append(mem, int(p.ID))
		}
		n = db.Model(&Speaker{ID: 1}).Association("Langs").Count()
		var found []Lang
		verifrt.Assert(db.Model(&Speaker{ID: 1}).Association("Langs").Find(&found) == nil, "C12.error:"+label)
		for _, p := range found {
			got = append(got, int(p.ID))
		}
		li := join.colIdx("langid")
		verifrt.Assert(len(join.rows) == len(want), "C12.stored-links:"+label)
		for _, r := range join.rows {
			verifrt.Assert(containsInt(want, r[li].i), "C12.stored-links:"+label)
		}
		verifrt.Assert(len(child.rows) == 3, "C12.rows-lost-or-added:"+label)
	}
	verifrt.Reach("op-applied")
	verifrt.Assert(err == nil, "C12.error:"+label)
	verifrt.Assert(n == int64(len(want)), "C12.count:"+label)
	c12SameSet(got, want, "C12.find:"+label)
	c12SameSet(mem, want, "C12.in-memory:"+label)
	verifrt.Observe("log", s.Kinds())
}

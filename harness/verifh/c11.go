package verifh

import (
	"database/sql/driver"

	"gorm.io/gorm"
	"gorm.io/gorm/internal/verifrt"
)

// C11 — eager loading attaches to each record exactly its own associated rows.
// The query stub returns the parents the harness chose and, for the child
// query, the children whose foreign key is in the statement's IN list (what a
// database would return); keys are symbolic.

func tupleIn(vals []driver.Value, width int, tuple []interface{}) bool {
	for i := 0; i+width <= len(vals); i += width {
		all := true
		for k := 0; k < width; k++ {
			if !verifrt.SameValue(vals[i+k], tuple[k]) {
				all = false
			}
		}
		if all {
			return true
		}
	}
	return false
}

var c11Shapes = []string{"has-many-int", "has-many-int-pointers", "composite-int", "composite-int-single", "composite-string-3-1", "composite-string-1-3", "composite-string-nil", "belongs-to", "has-one", "duplicate-parent", "join-nested-preload", "composite-string-backslash", "belongs-to-string-nil", "join-self-nested", "join-self-nested-single", "preload-args-reused", "many2many", "many2many-pointers", "soft-deleted-children", "soft-deleted-children-unscoped", "many2many-duplicate-parents"}

func N_C11_Preload(tier int) int { return len(c11Shapes) }

func symKeyStr(tag string, n int, alphabet string) string {
	b := make([]byte, n)
	for i := range b {
		c := verifrt.Byte(tag)
		in := false
		for j := 0; j < len(alphabet); j++ {
			in = verifrt.Or(in, c == alphabet[j])
		}
		verifrt.Assume(in)
		b[i] = c
	}
	return string(b)
}

func H_C11_Preload(shape int) {
	kind := c11Shapes[shape]
	verifrt.Tag(kind)
	s := NewStore()
	db := openReal(stubDialector{}, s, nil)
	switch kind {
	case "has-many-int", "has-many-int-pointers", "duplicate-parent":
		// two owners with symbolic ids, three pets with symbolic owner ids
		id1, id2 := int64(verifrt.Intn("p1", 1, 3)), int64(verifrt.Intn("p2", 1, 3))
		if kind != "duplicate-parent" {
			verifrt.Assume(id1 != id2)
		}
		fks := []int64{int64(verifrt.Intn("c1", 0, 3)), int64(verifrt.Intn("c2", 0, 3)), int64(verifrt.Intn("c3", 0, 3))}
		s.OnQuery = func(text string, args []driver.Value) RowSet {
			if hasPrefix(text, "SELECT * FROM `owners`") {
				return RowSet{Cols: []string{"id", "name"}, Rows: [][]driver.Value{{id1, "o1"}, {id2, "o2"}}}
			}
			rs := RowSet{Cols: []string{"id", "ownerid", "name"}}
			for i, fk := range fks {
				if tupleIn(args, 1, []interface{}{fk}) {
					rs.Rows = append(rs.Rows, []driver.Value{int64(10 + i), fk, "p"})
				}
			}
			return rs
		}
		check := func(owners []*Owner) {
			for _, o := range owners {
				want := []uint{}
				for i, fk := range fks {
					if fk == int64(o.ID) {
						want = append(want, uint(10+i))
					}
				}
				verifrt.Assert(len(o.Pets) == len(want), "C11.children-count")
				for i := range want {
					if i < len(o.Pets) {
						verifrt.Assert(o.Pets[i].ID == want[i], "C11.wrong-child")
						verifrt.Assert(int64(o.Pets[i].OwnerID) == int64(o.ID), "C11.foreign-key-mismatch")
					}
				}
			}
		}
		if kind == "has-many-int-pointers" {
			var os []*Owner
			verifrt.Assert(db.Preload("Pets").Find(&os).Error == nil, "C11.error")
			verifrt.Assert(len(os) == 2, "C11.parents")
			check(os)
		} else {
			var os []Owner
			verifrt.Assert(db.Preload("Pets").Find(&os).Error == nil, "C11.error")
			verifrt.Assert(len(os) == 2, "C11.parents")
			check([]*Owner{&os[0], &os[1]})
		}
	case "composite-int", "composite-int-single":
		d1, r1 := int64(verifrt.Intn("d1", 0, 2)), int64(verifrt.Intn("r1", 0, 2))
		d2, r2 := int64(verifrt.Intn("d2", 0, 2)), int64(verifrt.Intn("r2", 0, 2))
		// keys are distinct and not all-zero (a record without any key value has no identity)
		verifrt.Assume(verifrt.Or(d1 != d2, r1 != r2))
		verifrt.Assume(verifrt.Or(d1 != 0, r1 != 0))
		verifrt.Assume(verifrt.Or(d2 != 0, r2 != 0))
		type fk struct{ d, r int64 }
		kids := []fk{{int64(verifrt.Intn("cd1", 0, 2)), int64(verifrt.Intn("cr1", 0, 2))}, {int64(verifrt.Intn("cd2", 0, 2)), int64(verifrt.Intn("cr2", 0, 2))}}
		s.OnQuery = func(text string, args []driver.Value) RowSet {
			if hasPrefix(text, "SELECT * FROM `folders`") {
				rs := RowSet{Cols: []string{"doc", "rev", "name"}, Rows: [][]driver.Value{{d1, r1, "f1"}}}
				if kind == "composite-int" {
					rs.Rows = append(rs.Rows, []driver.Value{d2, r2, "f2"})
				}
				return rs
			}
			rs := RowSet{Cols: []string{"id", "folderdoc", "folderrev", "text"}}
			for i, k := range kids {
				if tupleIn(args, 2, []interface{}{k.d, k.r}) {
					rs.Rows = append(rs.Rows, []driver.Value{int64(10 + i), k.d, k.r, "t"})
				}
			}
			return rs
		}
		var fs []Folder
		if kind == "composite-int" {
			verifrt.Assert(db.Preload("Notes").Find(&fs).Error == nil, "C11.error")
			verifrt.Assert(len(fs) == 2, "C11.parents")
		} else {
			var f Folder
			verifrt.Assert(db.Preload("Notes").First(&f).Error == nil, "C11.error")
			fs = []Folder{f}
		}
		for _, f := range fs {
			n := 0
			for _, k := range kids {
				if k.d == int64(f.Doc) && k.r == int64(f.Rev) {
					n++
				}
			}
			verifrt.Assert(len(f.Notes) == n, "C11.children-count")
			for _, nt := range f.Notes {
				verifrt.Assert(nt.FolderDoc == f.Doc && nt.FolderRev == f.Rev, "C11.foreign-key-mismatch")
			}
		}
	case "composite-string-3-1", "composite-string-1-3", "composite-string-nil", "composite-string-backslash":
		l1, l2 := 3, 1
		if kind == "composite-string-1-3" {
			l1, l2 = 1, 3
		}
		alphabet := "a_"
		if kind == "composite-string-backslash" {
			alphabet = "_\\"
			l1, l2 = 2, 3
		}
		var c1, z1, c2, z2 string
		if kind == "composite-string-nil" {
			// the text "nil" next to an empty key component
			c1, z1 = symKeyStr("s1c", 3, "nil"), ""
			c2, z2 = "", symKeyStr("s2z", 3, "nil")
		} else {
			c1, z1 = symKeyStr("s1c", l1, alphabet), symKeyStr("s1z", l2, alphabet)
			c2, z2 = symKeyStr("s2c", l2, alphabet), symKeyStr("s2z", l1, alphabet)
		}
		verifrt.Assume(verifrt.Or(c1 != c2, z1 != z2)) // two different parents
		// one book per shelf
		s.OnQuery = func(text string, args []driver.Value) RowSet {
			if hasPrefix(text, "SELECT * FROM `shelfs`") {
				return RowSet{Cols: []string{"code", "zone"}, Rows: [][]driver.Value{{c1, z1}, {c2, z2}}}
			}
			rs := RowSet{Cols: []string{"id", "shelfcode", "shelfzone"}}
			if tupleIn(args, 2, []interface{}{c1, z1}) {
				rs.Rows = append(rs.Rows, []driver.Value{int64(11), c1, z1})
			}
			if tupleIn(args, 2, []interface{}{c2, z2}) {
				rs.Rows = append(rs.Rows, []driver.Value{int64(12), c2, z2})
			}
			return rs
		}
		var sh []Shelf
		verifrt.Assert(db.Preload("Books").Find(&sh).Error == nil, "C11.error")
		verifrt.Assert(len(sh) == 2, "C11.parents")
		for _, x := range sh {
			for _, b := range x.Books {
				verifrt.Assert(b.ShelfCode == x.Code && b.ShelfZone == x.Zone, "C11.foreign-key-mismatch")
			}
			verifrt.Assert(len(x.Books) == 1, "C11.children-count")
		}
	case "belongs-to", "has-one":
		cid := int64(verifrt.Intn("cid", 1, 2))
		s.OnQuery = func(text string, args []driver.Value) RowSet {
			switch {
			case hasPrefix(text, "SELECT * FROM `owners`"):
				return RowSet{Cols: []string{"id", "name", "companyid"}, Rows: [][]driver.Value{{int64(1), "o1", cid}, {int64(2), "o2", nil}, {int64(3), "o3", int64(2)}}}
			case hasPrefix(text, "SELECT * FROM `companys`"):
				rs := RowSet{Cols: []string{"id", "name"}}
				for _, c := range []int64{1, 2} {
					if tupleIn(args, 1, []interface{}{c}) {
						rs.Rows = append(rs.Rows, []driver.Value{c, "c"})
					}
				}
				return rs
			case hasPrefix(text, "SELECT * FROM `profiles`"):
				rs := RowSet{Cols: []string{"id", "ownerid", "bio"}}
				for _, o := range []int64{3, 1} {
					if tupleIn(args, 1, []interface{}{o}) {
						rs.Rows = append(rs.Rows, []driver.Value{int64(20 + o), o, "b"})
					}
				}
				return rs
			}
			return RowSet{}
		}
		var os []Owner
		if kind == "belongs-to" {
			verifrt.Assert(db.Preload("Company").Find(&os).Error == nil, "C11.error")
			verifrt.Assert(len(os) == 3, "C11.parents")
			verifrt.Assert(os[0].Company != nil && int64(os[0].Company.ID) == cid, "C11.wrong-child")
			verifrt.Assert(os[1].Company == nil, "C11.null-foreign-key-attached")
			verifrt.Assert(os[2].Company != nil && os[2].Company.ID == 2, "C11.wrong-child")
		} else {
			verifrt.Assert(db.Preload("Profile").Find(&os).Error == nil, "C11.error")
			verifrt.Assert(os[0].Profile.ID == 21 && os[0].Profile.OwnerID == 1, "C11.wrong-child")
			verifrt.Assert(os[1].Profile.ID == 0, "C11.child-of-another-parent")
			verifrt.Assert(os[2].Profile.ID == 23 && os[2].Profile.OwnerID == 3, "C11.wrong-child")
		}
	case "belongs-to-string-nil":
		// outlets: one with a key, one with a NULL foreign key (order symbolic); a region whose key is the text "nil"
		nullFirst := verifrt.Bool("null_first")
		code := symKeyStr("code", 3, "nilx_\\")
		rowKey := []driver.Value{int64(1), code}
		rowNull := []driver.Value{int64(2), nil}
		rows := [][]driver.Value{rowKey, rowNull}
		if nullFirst {
			rows = [][]driver.Value{rowNull, rowKey}
		}
		s.OnQuery = func(text string, args []driver.Value) RowSet {
			if hasPrefix(text, "SELECT * FROM `outlets`") {
				return RowSet{Cols: []string{"id", "regioncode"}, Rows: rows}
			}
			rs := RowSet{Cols: []string{"code", "name"}}
			if tupleIn(args, 1, []interface{}{code}) {
				rs.Rows = append(rs.Rows, []driver.Value{code, "r"})
			}
			// the table also holds a region whose key is the text "nil"
			if code != "nil" && tupleIn(args, 1, []interface{}{"nil"}) {
				rs.Rows = append(rs.Rows, []driver.Value{"nil", "r"})
			}
			return rs
		}
		var os []Outlet
		verifrt.Assert(db.Preload("Region").Find(&os).Error == nil, "C11.error")
		verifrt.Assert(len(os) == 2, "C11.parents")
		for _, o := range os {
			if o.RegionCode == nil {
				verifrt.Assert(o.Region == nil, "C11.null-foreign-key-attached")
			} else {
				verifrt.Assert(o.Region != nil && o.Region.Code == *o.RegionCode, "C11.wrong-child")
			}
		}
	case "join-self-nested":
		// Joins("Manager").Preload("Manager.Manager") into a slice: the nested manager must be loaded
		s.OnQuery = func(text string, args []driver.Value) RowSet {
			if hasPrefix(text, "SELECT `staffs`") {
				return RowSet{Cols: []string{"id", "name", "managerid", "Manager__id", "Manager__name", "Manager__managerid"},
					Rows: [][]driver.Value{{int64(1), "s1", int64(7), int64(7), "m7", int64(9)}, {int64(2), "s2", int64(8), int64(8), "m8", nil}}}
			}
			rs := RowSet{Cols: []string{"id", "name", "managerid"}}
			if tupleIn(args, 1, []interface{}{int64(9)}) {
				rs.Rows = append(rs.Rows, []driver.Value{int64(9), "top", nil})
			}
			return rs
		}
		var st []Staff
		verifrt.Assert(db.Joins("Manager").Preload("Manager.Manager").Find(&st).Error == nil, "C11.error")
		verifrt.Assert(len(st) == 2, "C11.parents")
		verifrt.Assert(st[0].Manager != nil && st[0].Manager.ID == 7, "C11.wrong-child")
		verifrt.Assert(st[0].Manager != nil && st[0].Manager.Manager != nil && st[0].Manager.Manager.ID == 9, "C11.nested-child-missing")
		verifrt.Assert(st[1].Manager != nil && st[1].Manager.Manager == nil, "C11.null-foreign-key-attached")
	case "preload-args-reused":
		// Preload arguments (a scope function, then inline conditions) on a reusable handle:
		// every execution sends the same child query, so the same children are attached
		id1 := int64(verifrt.Intn("p1", 1, 3))
		s.OnQuery = func(text string, args []driver.Value) RowSet {
			if hasPrefix(text, "SELECT * FROM `owners`") {
				return RowSet{Cols: []string{"id", "name"}, Rows: [][]driver.Value{{id1, "o1"}}}
			}
			return RowSet{Cols: []string{"id", "ownerid", "name"}, Rows: [][]driver.Value{{int64(10), id1, "p"}}}
		}
		x := verifrt.Int("x")
		h := db.Preload("Pets", func(tx *gorm.DB) *gorm.DB { return tx.Where("id > ?", x) }, "name <> ?", "q").Session(&gorm.Session{})
		var texts []string
		var argss [][]driver.Value
		for round := 0; round < 3; round++ {
			var os []Owner
			mark := len(s.Log)
			verifrt.Assert(h.Find(&os).Error == nil, "C11.error")
			verifrt.Assert(len(os) == 1 && len(os[0].Pets) == 1, "C11.children")
			for _, e := range s.Log[mark:] {
				if e.Kind == "QUERY" && hasPrefix(e.Text, "SELECT * FROM `pets`") {
					texts = append(texts, e.Text)
					argss = append(argss, e.Args)
				}
			}
		}
		verifrt.Assert(len(texts) == 3, "C11.child-queries")
		for i := 1; i < len(texts); i++ {
			verifrt.Assert(texts[i] == texts[0], "C11.preload-conditions-lost-on-reuse")
			verifrt.Assert(len(argss[i]) == len(argss[0]), "C11.preload-conditions-lost-on-reuse")
		}
		verifrt.Assert(indexStr(texts[0], "id > ?") >= 0 && indexStr(texts[0], "name <> ?") >= 0, "C11.preload-conditions-missing")
	case "join-self-nested-single":
		// the same into a single struct (First / Take): a different branch of the preload entry point
		s.OnQuery = func(text string, args []driver.Value) RowSet {
			if hasPrefix(text, "SELECT `staffs`") {
				return RowSet{Cols: []string{"id", "name", "managerid", "Manager__id", "Manager__name", "Manager__managerid"},
					Rows: [][]driver.Value{{int64(1), "s1", int64(7), int64(7), "m7", int64(9)}}}
			}
			rs := RowSet{Cols: []string{"id", "name", "managerid"}}
			if tupleIn(args, 1, []interface{}{int64(9)}) {
				rs.Rows = append(rs.Rows, []driver.Value{int64(9), "top", nil})
			}
			return rs
		}
		var one Staff
		var err error
		if verifrt.Bool("take") {
			err = db.Joins("Manager").Preload("Manager.Manager").Take(&one).Error
		} else {
			err = db.Joins("Manager").Preload("Manager.Manager").First(&one).Error
		}
		verifrt.Assert(err == nil, "C11.error")
		verifrt.Assert(one.Manager != nil && one.Manager.ID == 7, "C11.wrong-child")
		verifrt.Assert(one.Manager != nil && one.Manager.Manager != nil && one.Manager.Manager.ID == 9, "C11.nested-child-missing")
	case "join-nested-preload":
		// Joins("Manager").Preload("Manager.Pets"): a row without manager precedes rows with one (order symbolic)
		order := verifrt.Concretize(verifrt.Intn("order", 0, 2), 0, 2)
		rowNil := []driver.Value{int64(1), "s1", nil, nil, nil, nil}
		rowA := []driver.Value{int64(2), "s2", int64(7), int64(7), "m7", nil}
		rowB := []driver.Value{int64(3), "s3", int64(8), int64(8), "m8", nil}
		rows := [][]driver.Value{rowNil, rowA, rowB}
		if order == 1 {
			rows = [][]driver.Value{rowA, rowNil, rowB}
		} else if order == 2 {
			rows = [][]driver.Value{rowA, rowB, rowNil}
		}
		s.OnQuery = func(text string, args []driver.Value) RowSet {
			if hasPrefix(text, "SELECT `staffs`") {
				return RowSet{Cols: []string{"id", "name", "managerid", "Manager__id", "Manager__name", "Manager__managerid"}, Rows: rows}
			}
			rs := RowSet{Cols: []string{"id", "staffid", "name"}}
			for _, m := range []int64{7, 8} {
				if tupleIn(args, 1, []interface{}{m}) {
					rs.Rows = append(rs.Rows, []driver.Value{int64(30 + m), m, "pet"})
				}
			}
			return rs
		}
		var st []Staff
		verifrt.Assert(db.Joins("Manager").Preload("Manager.Pets").Find(&st).Error == nil, "C11.error")
		verifrt.Assert(len(st) == 3, "C11.parents")
		for _, x := range st {
			if x.ManagerID == nil {
				verifrt.Assert(x.Manager == nil, "C11.null-foreign-key-attached")
				continue
			}
			verifrt.Assert(x.Manager != nil && x.Manager.ID == *x.ManagerID, "C11.wrong-child")
			verifrt.Assert(len(x.Manager.Pets) == 1, "C11.children-count")
			if len(x.Manager.Pets) == 1 {
				verifrt.Assert(x.Manager.Pets[0].StaffID == x.Manager.ID, "C11.foreign-key-mismatch")
			}
		}
	case "many2many", "many2many-pointers":
		// two speakers (symbolic ids), three join rows (symbolic speaker and language), two languages
		id1, id2 := int64(verifrt.Intn("p1", 1, 3)), int64(verifrt.Intn("p2", 1, 3))
		verifrt.Assume(id1 != id2)
		jo := []int64{int64(verifrt.Intn("j1o", 0, 3)), int64(verifrt.Intn("j2o", 0, 3)), int64(verifrt.Intn("j3o", 0, 3))}
		jl := []int64{int64(verifrt.Intn("j1l", 1, 2)), int64(verifrt.Intn("j2l", 1, 2)), int64(verifrt.Intn("j3l", 1, 2))}
		// the join table's key is the pair
		for a := 0; a < 3; a++ {
			for b := a + 1; b < 3; b++ {
				verifrt.Assume(verifrt.Or(jo[a] != jo[b], jl[a] != jl[b]))
			}
		}
		s.OnQuery = func(text string, args []driver.Value) RowSet {
			switch {
			case hasPrefix(text, "SELECT * FROM `speakers`"):
				return RowSet{Cols: []string{"id", "name"}, Rows: [][]driver.Value{{id1, "s1"}, {id2, "s2"}}}
			case hasPrefix(text, "SELECT * FROM `speaker_langs`"):
				rs := RowSet{Cols: []string{"speakerid", "langid"}}
				for i := range jo {
					if tupleIn(args, 1, []interface{}{jo[i]}) {
						rs.Rows = append(rs.Rows, []driver.Value{jo[i], jl[i]})
					}
				}
				return rs
			}
			rs := RowSet{Cols: []string{"id", "name"}}
			for _, l := range []int64{1, 2} {
				if tupleIn(args, 1, []interface{}{l}) {
					rs.Rows = append(rs.Rows, []driver.Value{l, "l"})
				}
			}
			return rs
		}
		check := func(sp []*Speaker) {
			for _, x := range sp {
				for _, l := range []int64{1, 2} {
					want, got := 0, 0
					for i := range jo {
						if jo[i] == int64(x.ID) && jl[i] == l {
							want++
						}
					}
					for _, g := range x.Langs {
						if int64(g.ID) == l {
							got++
						}
					}
					verifrt.Assert(got == want, "C11.wrong-child")
				}
			}
		}
		if kind == "many2many-pointers" {
			var sp []*Speaker
			verifrt.Assert(db.Preload("Langs").Find(&sp).Error == nil, "C11.error")
			verifrt.Assert(len(sp) == 2, "C11.parents")
			check(sp)
		} else {
			var sp []Speaker
			verifrt.Assert(db.Preload("Langs").Find(&sp).Error == nil, "C11.error")
			verifrt.Assert(len(sp) == 2, "C11.parents")
			check([]*Speaker{&sp[0], &sp[1]})
		}
	case "many2many-duplicate-parents":
		// the parent result holds speaker 1 several times (as a join with another table
		// produces), then speakers 2 and 3; four join rows with symbolic owners
		dup := verifrt.Concretize(verifrt.Intn("dup", 1, 4), 1, 4)
		jo := []int64{int64(verifrt.Intn("j1o", 1, 3)), int64(verifrt.Intn("j2o", 1, 3)), int64(verifrt.Intn("j3o", 1, 3)), int64(verifrt.Intn("j4o", 1, 3))}
		jl := []int64{1, 2, 1, 2}
		verifrt.Assume(verifrt.And(jo[0] != jo[2], jo[1] != jo[3]))
		s.OnQuery = func(text string, args []driver.Value) RowSet {
			switch {
			case hasPrefix(text, "SELECT * FROM `speakers`"):
				rs := RowSet{Cols: []string{"id", "name"}}
				for i := 0; i < dup; i++ {
					rs.Rows = append(rs.Rows, []driver.Value{int64(1), "s1"})
				}
				rs.Rows = append(rs.Rows, []driver.Value{int64(2), "s2"}, []driver.Value{int64(3), "s3"})
				return rs
			case hasPrefix(text, "SELECT * FROM `speaker_langs`"):
				rs := RowSet{Cols: []string{"speakerid", "langid"}}
				for i := range jo {
					if tupleIn(args, 1, []interface{}{jo[i]}) {
						rs.Rows = append(rs.Rows, []driver.Value{jo[i], jl[i]})
					}
				}
				return rs
			}
			rs := RowSet{Cols: []string{"id", "name"}}
			for _, l := range []int64{1, 2} {
				if tupleIn(args, 1, []interface{}{l}) {
					rs.Rows = append(rs.Rows, []driver.Value{l, "l"})
				}
			}
			return rs
		}
		var sp []Speaker
		verifrt.Assert(db.Preload("Langs").Find(&sp).Error == nil, "C11.error")
		verifrt.Assert(len(sp) == dup+2, "C11.parents")
		for _, x := range sp {
			for _, l := range []int64{1, 2} {
				want, got := 0, 0
				for i := range jo {
					if jo[i] == int64(x.ID) && jl[i] == l {
						want++
					}
				}
				for _, g := range x.Langs {
					if int64(g.ID) == l {
						got++
					}
				}
				verifrt.Assert(got == want, "C11.wrong-child")
			}
		}
	case "soft-deleted-children", "soft-deleted-children-unscoped":
		// two binders (symbolic ids), three sheets with symbolic binder and symbolic deleted flag;
		// the stub answers the child query as a database would (foreign key and deleted_at condition)
		unscoped := kind == "soft-deleted-children-unscoped"
		id1, id2 := int64(verifrt.Intn("p1", 1, 3)), int64(verifrt.Intn("p2", 1, 3))
		verifrt.Assume(id1 != id2)
		fks := []int64{int64(verifrt.Intn("c1", 0, 3)), int64(verifrt.Intn("c2", 0, 3)), int64(verifrt.Intn("c3", 0, 3))}
		del := []bool{verifrt.Bool("d1"), verifrt.Bool("d2"), verifrt.Bool("d3")}
		gone := c07Now()
		s.OnQuery = func(text string, args []driver.Value) RowSet {
			if hasPrefix(text, "SELECT * FROM `binders`") {
				return RowSet{Cols: []string{"id", "name"}, Rows: [][]driver.Value{{id1, "f1"}, {id2, "f2"}}}
			}
			live := indexStr(text, "`sheets`.`deletedat` IS NULL") >= 0
			rs := RowSet{Cols: []string{"id", "binderid", "deletedat"}}
			for i, fk := range fks {
				if tupleIn(args, 1, []interface{}{fk}) && !(live && del[i]) {
					var d driver.Value
					if del[i] {
						d = gone
					}
					rs.Rows = append(rs.Rows, []driver.Value{int64(10 + i), fk, d})
				}
			}
			return rs
		}
		var fs []Binder
		tx := db
		if unscoped {
			tx = db.Unscoped()
		}
		verifrt.Assert(tx.Preload("Sheets").Find(&fs).Error == nil, "C11.error")
		verifrt.Assert(len(fs) == 2, "C11.parents")
		for _, f := range fs {
			want := 0
			for i, fk := range fks {
				if fk == int64(f.ID) && (unscoped || !del[i]) {
					want++
				}
			}
			verifrt.Assert(len(f.Sheets) == want, "C11.children-count")
			for _, n := range f.Sheets {
				verifrt.Assert(int64(n.BinderID) == int64(f.ID), "C11.foreign-key-mismatch")
				if !unscoped {
					verifrt.Assert(!n.DeletedAt.Valid, "C11.soft-deleted-child-attached")
				}
			}
		}
	}
	verifrt.Reach("done")
	var _ *gorm.DB = db
}

package verifh

import (
	"time"

	"gorm.io/gorm"
	"gorm.io/gorm/clause"
	"gorm.io/gorm/internal/verifrt"
)

// C10 — a write touches only permitted, selected columns.

// columns of Perm and what the property permits on each
// ("->" in any form is read-only unless "<-" is configured as well — gorm's documented tag table)
var c10Creatable = map[string]bool{"id": true, "plain": true, "num": true, "createonly": true, "writeonly": true, "nomig": true, "createdat": true, "updatedat": true, "touchedms": true, "seenat": true, "audit_createonly": true}
var c10Updatable = map[string]bool{"audit_createonly": true, "id": true, "plain": true, "num": true, "updateonly": true, "writeonly": true, "nomig": true, "createdat": true, "updatedat": true, "stamp": true}

// backquoted names of a comma separated column / assignment list
func quotedNames(list string) []string {
	var r []string
	depth := 0
	start := true
	for i := 0; i < len(list); i++ {
		switch list[i] {
		case '(':
			depth++
		case ')':
			depth--
		case ',':
			if depth == 0 {
				start = true
			}
		case '`':
			if start && depth == 0 {
				j := i + 1
				for j < len(list) && list[j] != '`' {
					j++
				}
				r = append(r, list[i+1:j])
				i = j
				start = false
			}
		}
	}
	return r
}

func between(s, from, to string) (string, bool) {
	i := indexStr(s, from)
	if i < 0 {
		return "", false
	}
	s = s[i+len(from):]
	if to != "" {
		if j := indexStr(s, to); j >= 0 {
			s = s[:j]
		}
	}
	return s, true
}

func insertCols(sql string) []string {
	l, ok := between(sql, "` (", ") VALUES")
	if !ok {
		return nil
	}
	return quotedNames(l)
}

func setCols(sql string) []string {
	if l, ok := between(sql, " DO UPDATE SET ", " RETURNING"); ok {
		return quotedNames(l)
	}
	if hasPrefix(sql, "UPDATE ") {
		l, ok := between(sql, " SET ", " WHERE ")
		if ok {
			return quotedNames(l)
		}
	}
	return nil
}

func hasStr(xs []string, s string) bool { return indexOf(xs, s) >= 0 }

type c10Case struct {
	name string
	run  func(db *gorm.DB, p *Perm) *gorm.DB
	// expected SET columns for the update cases (nil = only permissions are checked)
	wantSet func(p *Perm) []string
}

func c10Full(name string) Perm {
	return Perm{Plain: name, Num: 1, CreateOnly: 2, UpdateOnly: 3, NoWrite: 4, ReadOnly: 5, NoRead: 6, WriteOnly: 6, Ignored: 7, NoMig: 8, IgnAll: 9, Serial: "s", Stamp: "t"}
}

func c10Cases() []c10Case {
	nz := func(p *Perm) []string {
		// non-zero updatable fields of p, in column order, plus the refreshed time
		var r []string
		if p.Plain != "" {
			r = append(r, "plain")
		}
		if p.Num != 0 {
			r = append(r, "num")
		}
		if p.UpdateOnly != 0 {
			r = append(r, "updateonly")
		}
		if p.WriteOnly != 0 {
			r = append(r, "writeonly")
		}
		if p.NoMig != 0 {
			r = append(r, "nomig")
		}
		if p.Stamp != "" {
			r = append(r, "stamp")
		}
		return r
	}
	allMap := map[string]interface{}{"plain": "", "num": 0, "createonly": 1, "updateonly": 0, "nowrite": 1, "readonly": 1, "noread": 1, "writeonly": 0, "nomig": 1, "serial": "x", "stamp": ""}
	return []c10Case{
		{"create-struct", func(db *gorm.DB, p *Perm) *gorm.DB { return db.Create(p) }, nil},
		{"create-slice", func(db *gorm.DB, p *Perm) *gorm.DB { q := c10Full("q"); return db.Create(&[]Perm{*p, q}) }, nil},
		{"create-slice-ptr", func(db *gorm.DB, p *Perm) *gorm.DB { q := c10Full("q"); return db.Create(&[]*Perm{p, &q}) }, nil},
		{"create-batches", func(db *gorm.DB, p *Perm) *gorm.DB {
			q := c10Full("q")
			return db.CreateInBatches(&[]Perm{*p, q, q}, 2)
		}, nil},
		{"create-slice-select", func(db *gorm.DB, p *Perm) *gorm.DB {
			// a restricting Select on a batch create: columns it does not name stay out, also the
			// key and the columns with database defaults when the elements carry values for them
			q := c10Full("q")
			p.ID, q.ID = 5, 6
			res := db.Select("plain", "num").Create(&[]Perm{*p, q})
			for _, col := range insertCols(res.Statement.SQL.String()) {
				verifrt.Assert(hasStr([]string{"plain", "num", "createdat", "updatedat", "touchedms", "seenat"}, col), "C10.create-unselected-column:"+col)
			}
			return res
		}, nil},
		{"create-struct-select", func(db *gorm.DB, p *Perm) *gorm.DB {
			p.ID = 5
			res := db.Select("plain", "num").Create(p)
			for _, col := range insertCols(res.Statement.SQL.String()) {
				verifrt.Assert(hasStr([]string{"plain", "num", "createdat", "updatedat", "touchedms", "seenat"}, col), "C10.create-unselected-column:"+col)
			}
			return res
		}, nil},
		{"create-map", func(db *gorm.DB, p *Perm) *gorm.DB { return db.Model(&Perm{}).Create(allMap) }, nil},
		{"create-maps", func(db *gorm.DB, p *Perm) *gorm.DB {
			return db.Model(&Perm{}).Create([]map[string]interface{}{allMap, {"plain": "b", "ReadOnly": 2}})
		}, nil},
		{"create-select-star", func(db *gorm.DB, p *Perm) *gorm.DB { return db.Select("*").Create(p) }, nil},
		{"upsert-updateall", func(db *gorm.DB, p *Perm) *gorm.DB { return db.Clauses(clause.OnConflict{UpdateAll: true}).Create(p) }, nil},
		{"upsert-updateall-slice", func(db *gorm.DB, p *Perm) *gorm.DB {
			q := c10Full("q")
			return db.Clauses(clause.OnConflict{UpdateAll: true}).Create(&[]Perm{*p, q})
		}, nil},
		{"save-new", func(db *gorm.DB, p *Perm) *gorm.DB { p.ID = 0; return db.Save(p) }, nil},
		{"save-existing", func(db *gorm.DB, p *Perm) *gorm.DB { p.ID = 5; return db.Save(p) }, nil},
		{"save-select-star", func(db *gorm.DB, p *Perm) *gorm.DB { p.ID = 5; return db.Select("*").Save(p) }, nil},
		{"save-composite-partial-key", func(db *gorm.DB, p *Perm) *gorm.DB {
			// a partly keyed record must not become the condition of an UPDATE touching other rows
			d := verifrt.Intn("doc", 0, 3)
			res := db.Save(&Folder{Doc: d, Rev: 0, Name: "f"})
			verifrt.Assert(hasPrefix(res.Statement.SQL.String(), "INSERT INTO `folders`"), "C10.save-partial-key-updates-rows")
			return res
		}, nil},
		{"updates-struct", func(db *gorm.DB, p *Perm) *gorm.DB { return db.Model(&Perm{ID: 5}).Updates(*p) },
			func(p *Perm) []string { return append(nz(p), "updatedat") }},
		{"updates-struct-ptr-self", func(db *gorm.DB, p *Perm) *gorm.DB { p.ID = 5; return db.Updates(p) },
			func(p *Perm) []string { return append(nz(p), "updatedat") }},
		{"updates-map", func(db *gorm.DB, p *Perm) *gorm.DB { return db.Model(&Perm{ID: 5}).Updates(allMap) },
			func(p *Perm) []string {
				return []string{"writeonly", "nomig", "num", "plain", "stamp", "updateonly", "updatedat"}
			}},
		{"update-single-zero", func(db *gorm.DB, p *Perm) *gorm.DB { return db.Model(&Perm{ID: 5}).Update("num", 0) },
			func(p *Perm) []string { return []string{"num", "updatedat"} }},
		{"update-denied-column", func(db *gorm.DB, p *Perm) *gorm.DB { return db.Model(&Perm{ID: 5}).Update("createonly", 1) }, nil},
		{"update-column", func(db *gorm.DB, p *Perm) *gorm.DB { return db.Model(&Perm{ID: 5}).UpdateColumn("num", 0) },
			func(p *Perm) []string { return []string{"num"} }},
		{"update-columns-struct", func(db *gorm.DB, p *Perm) *gorm.DB { return db.Model(&Perm{ID: 5}).UpdateColumns(*p) },
			func(p *Perm) []string { return nz(p) }},
		{"update-columns-map", func(db *gorm.DB, p *Perm) *gorm.DB { return db.Model(&Perm{ID: 5}).UpdateColumns(allMap) },
			func(p *Perm) []string { return []string{"writeonly", "nomig", "num", "plain", "stamp", "updateonly"} }},
		{"updates-struct-select", func(db *gorm.DB, p *Perm) *gorm.DB {
			return db.Model(&Perm{ID: 5}).Select("plain", "createonly", "num").Updates(*p)
		},
			func(p *Perm) []string { return []string{"plain", "num", "updatedat"} }},
		{"updates-struct-omit", func(db *gorm.DB, p *Perm) *gorm.DB {
			return db.Model(&Perm{ID: 5}).Omit("num", "UpdatedAt").Updates(*p)
		},
			func(p *Perm) []string {
				var r []string
				for _, c := range nz(p) {
					if c != "num" {
						r = append(r, c)
					}
				}
				return r
			}},
		{"updates-struct-select-star-omit", func(db *gorm.DB, p *Perm) *gorm.DB {
			return db.Model(&Perm{ID: 5}).Select("*").Omit("plain").Updates(*p)
		},
			func(p *Perm) []string {
				return []string{"id", "num", "updateonly", "writeonly", "nomig", "stamp", "createdat", "updatedat", "audit_createonly"}
			}},
		{"update-columns-select-stale-time", func(db *gorm.DB, p *Perm) *gorm.DB {
			q := *p
			q.UpdatedAt = time.Unix(1000, 0)
			return db.Model(&Perm{ID: 5}).Select("plain").UpdateColumns(q)
		}, func(p *Perm) []string { return []string{"plain"} }},
		{"updates-select-stale-time", func(db *gorm.DB, p *Perm) *gorm.DB {
			q := *p
			q.UpdatedAt = time.Unix(1000, 0)
			return db.Model(&Perm{ID: 5}).Select("plain").Updates(q)
		}, func(p *Perm) []string { return []string{"plain", "updatedat"} }},
		{"updates-skiphooks-session", func(db *gorm.DB, p *Perm) *gorm.DB {
			return db.Session(&gorm.Session{SkipHooks: true}).Model(&Perm{ID: 5}).Updates(*p)
		}, func(p *Perm) []string { return nz(p) }},
	}
}

func N_C10_Columns(tier int) int { return len(c10Cases()) }

func sameStrSet(a, b []string) bool {
	if len(a) != len(b) {
		return false
	}
	for _, x := range a {
		if !hasStr(b, x) {
			return false
		}
	}
	return true
}

func H_C10_Columns(shape int) {
	c := c10Cases()[shape]
	verifrt.Tag(c.name)
	db := openDry(stubDialector{})
	// symbolic zero-ness / values of the writable and the denied fields
	p := &Perm{Plain: symName("plain"), Num: verifrt.Int("num"), CreateOnly: verifrt.Int("createonly"), UpdateOnly: verifrt.Int("updateonly"),
		NoWrite: verifrt.Int("nowrite"), ReadOnly: verifrt.Int("readonly"), NoRead: verifrt.Int("noread"), WriteOnly: verifrt.Int("writeonly"), Ignored: 7, NoMig: verifrt.Int("nomig"), IgnAll: 9,
		Serial: symName("serial"), Stamp: symName("stamp")}
	want := []string(nil)
	if c.wantSet != nil {
		want = c.wantSet(p)
	}
	res := c.run(db, p)
	stmt := res.Statement
	sql := stmt.SQL.String()
	verifrt.Reach("built")
	verifrt.Observe("sql", sql)
	if c.name == "save-composite-partial-key" {
		return // another model: only the INSERT-not-UPDATE assertion inside the case applies
	}
	ins, set := insertCols(sql), setCols(sql)
	for _, col := range ins {
		verifrt.Assert(c10Creatable[col], "C10.create-denied-column:"+col)
	}
	for _, col := range set {
		verifrt.Assert(c10Updatable[col], "C10.update-denied-column:"+col)
	}
	if hasPrefix(sql, "UPDATE ") {
		// only the row of the model key is targeted
		w, ok := whereText(sql)
		verifrt.Assert(ok && w == "`id` = ?", "C10.key-condition")
	}
	if c.wantSet != nil {
		if len(want) == 0 {
			verifrt.Assert(sql == "" || len(set) == 0, "C10.unexpected-write")
			return
		}
		verifrt.Assert(res.Error == nil, "C10.error")
		verifrt.Assert(sameStrSet(set, want), "C10.written-set")
	}
}

package verifh

import (
	"database/sql"
	"database/sql/driver"

	"gorm.io/gorm"
	"gorm.io/gorm/clause"
	"gorm.io/gorm/internal/verifrt"
)

// C01 (second harness) — argument forms and entry points with concrete
// templates: every kind of argument value (symbolic scalars inside), both
// placeholder dialects. want = the values that must be bound, in order.

// a Valuer whose Go kind is an array: one bound parameter, never expanded
type codeValuer [2]byte

func (c codeValuer) Value() (driver.Value, error) { return string(c[:]), nil }

type tagsValuer []string

func (t tagsValuer) Value() (driver.Value, error) { return len(t), nil }

// named byte slice / byte array types without a Valuer: one bound value each
type rawMsg []byte
type digest [2]byte

type c01Form struct {
	name string
	run  func(db *gorm.DB, x, y, z int) (*gorm.Statement, []interface{})
}

// emptyListWant: an empty slice becomes NULL - either the literal or one placeholder bound to nil
func emptyListWant(st *gorm.Statement, x int) []interface{} {
	if indexStr(st.SQL.String(), "(NULL)") >= 0 {
		return []interface{}{x}
	}
	return []interface{}{nil, x}
}

func c01Forms() []c01Form {
	find := func(db *gorm.DB) *gorm.Statement { var out []map[string]interface{}; return db.Find(&out).Statement }
	return []c01Form{
		{"in-paren-slice", func(db *gorm.DB, x, y, z int) (*gorm.Statement, []interface{}) {
			return find(db.Table("t").Where("a IN (?)", []int{x, y}).Where("b = ?", z)), []interface{}{x, y, z}
		}},
		{"in-bare-slice", func(db *gorm.DB, x, y, z int) (*gorm.Statement, []interface{}) {
			return find(db.Table("t").Where("a IN ?", []int{x, y, z})), []interface{}{x, y, z}
		}},
		{"in-empty-slice", func(db *gorm.DB, x, y, z int) (*gorm.Statement, []interface{}) {
			st := find(db.Table("t").Where("a IN (?)", []int{}).Where("b = ?", x))
			return st, emptyListWant(st, x)
		}},
		// the same through the named-expression builder (raw Joins; Raw with '@' in the text)
		{"in-empty-slice-raw-join", func(db *gorm.DB, x, y, z int) (*gorm.Statement, []interface{}) {
			st := find(db.Table("t").Joins("JOIN u ON u.a NOT IN (?) AND u.b = ?", []int{}, x))
			return st, emptyListWant(st, x)
		}},
		{"in-empty-slice-raw-at", func(db *gorm.DB, x, y, z int) (*gorm.Statement, []interface{}) {
			var out []map[string]interface{}
			st := db.Raw("SELECT * FROM t WHERE mail <> 'a@b' AND a IN (?) AND b = ?", []string{}, x).Scan(&out).Statement
			return st, emptyListWant(st, x)
		}},
		{"nested-interface-slice", func(db *gorm.DB, x, y, z int) (*gorm.Statement, []interface{}) {
			return find(db.Table("t").Where("(a, b) IN ?", [][]interface{}{{x, y}, {z, x}})), []interface{}{x, y, z, x}
		}},
		{"bytes-whole", func(db *gorm.DB, x, y, z int) (*gorm.Statement, []interface{}) {
			b := []byte{byte(x), byte(y)}
			// (a []byte directly after '(' is expanded element-wise by gorm like any slice:
			// whether a blob should be is left open, the form is not used here)
			return find(db.Table("t").Where("a = ? AND c = ?", b, b)), []interface{}{b, b}
		}},
		{"bytes-in-equality", func(db *gorm.DB, x, y, z int) (*gorm.Statement, []interface{}) {
			// a blob compared for (in)equality through the column form is one bound value
			b1, b2 := []byte{byte(x), byte(y)}, []byte{byte(z)}
			return find(db.Table("t").Where("a", b1).Not("b", b2).Where(clause.Neq{Column: "c", Value: b1})), []interface{}{b1, b2, b1}
		}},
		{"named-byte-types", func(db *gorm.DB, x, y, z int) (*gorm.Statement, []interface{}) {
			r, d := rawMsg{byte(x), byte(y)}, digest{byte(z), byte(x)}
			return find(db.Table("t").Where("a = ? AND b = ?", r, d).Where("c = ?", z)), []interface{}{r, d, z}
		}},
		{"named-byte-types-update-map", func(db *gorm.DB, x, y, z int) (*gorm.Statement, []interface{}) {
			r, d := rawMsg{byte(x)}, digest{byte(y), byte(z)}
			return db.Table("t").Where("k = ?", d).Updates(map[string]interface{}{"a": r}).Statement, []interface{}{r, d}
		}},
		{"pointer-and-null", func(db *gorm.DB, x, y, z int) (*gorm.Statement, []interface{}) {
			n := sql.NullInt64{Int64: int64(y), Valid: true}
			return find(db.Table("t").Where("a = ? AND b = ? AND c = ?", &x, n, nil)), []interface{}{&x, n, nil}
		}},
		{"valuer-array-in-paren", func(db *gorm.DB, x, y, z int) (*gorm.Statement, []interface{}) {
			c := codeValuer{byte(x), byte(y)}
			return find(db.Table("t").Where("code IN (?)", c).Where("k = COALESCE(?, k)", tagsValuer{"p", "q"})), []interface{}{c, tagsValuer{"p", "q"}}
		}},
		// the same wrappers through the named-expression builder: raw Joins always use it,
		// Raw/Where use it when the text contains '@'
		{"valuer-in-paren-raw-join", func(db *gorm.DB, x, y, z int) (*gorm.Statement, []interface{}) {
			c := codeValuer{byte(x), byte(y)}
			return find(db.Table("t").Joins("JOIN u ON u.code = f(?) AND u.k = g(?)", c, tagsValuer{"p", "q"}).Where("t.a = ?", z)), []interface{}{c, tagsValuer{"p", "q"}, z}
		}},
		{"valuer-in-paren-raw-at", func(db *gorm.DB, x, y, z int) (*gorm.Statement, []interface{}) {
			var out []map[string]interface{}
			st := db.Raw("SELECT * FROM t WHERE mail <> 'a@b' AND k = g(?) AND a = ?", tagsValuer{"p", "q"}, x).Scan(&out).Statement
			return st, []interface{}{tagsValuer{"p", "q"}, x}
		}},
		{"named-map", func(db *gorm.DB, x, y, z int) (*gorm.Statement, []interface{}) {
			return find(db.Table("t").Where("a = @p AND b = @q OR c = @p", map[string]interface{}{"p": x, "q": y})), []interface{}{x, y, x}
		}},
		{"named-sql-named", func(db *gorm.DB, x, y, z int) (*gorm.Statement, []interface{}) {
			return find(db.Table("t").Where("a = @p AND b IN @q", sql.Named("p", x), sql.Named("q", []int{y, z}))), []interface{}{x, y, z}
		}},
		{"expr-argument", func(db *gorm.DB, x, y, z int) (*gorm.Statement, []interface{}) {
			return find(db.Table("t").Where("a = ? AND b > ?", gorm.Expr("c + ?", x), y)), []interface{}{x, y}
		}},
		{"subquery-builder", func(db *gorm.DB, x, y, z int) (*gorm.Statement, []interface{}) {
			sub := db.Table("u").Select("id").Where("v > ? AND w = ?", y, z)
			return find(db.Table("t").Where("a < ?", x).Where("id IN (?)", sub).Where("c = ?", x)), []interface{}{x, y, z, x}
		}},
		{"subquery-raw", func(db *gorm.DB, x, y, z int) (*gorm.Statement, []interface{}) {
			sub := db.Raw("SELECT id FROM u WHERE v = ? AND w > ?", y, z)
			return find(db.Table("t").Where("a < ?", x).Where("id IN (?)", sub).Where("c = ?", x)), []interface{}{x, y, z, x}
		}},
		{"subquery-raw-twelve-values", func(db *gorm.DB, x, y, z int) (*gorm.Statement, []interface{}) {
			// more than nine values inside the sub-query: "$1" is a prefix of "$10".."$12"
			in := []int{x, y, z, x, y, z, x, y, z, x}
			sub := db.Raw("SELECT id FROM u WHERE v IN ? AND w > ? AND q <> ?", in, y, z)
			want := []interface{}{z}
			for _, v := range in {
				want = append(want, v)
			}
			return find(db.Table("t").Where("a < ?", z).Where("id IN (?)", sub).Where("c = ?", x)), append(want, y, z, x)
		}},
		{"subquery-in-table", func(db *gorm.DB, x, y, z int) (*gorm.Statement, []interface{}) {
			sub := db.Table("u").Select("id").Where("v = ?", y)
			return find(db.Table("(?) as s", sub).Where("s.id > ?", x)), []interface{}{y, x}
		}},
		{"not-or-having", func(db *gorm.DB, x, y, z int) (*gorm.Statement, []interface{}) {
			return find(db.Table("t").Not("a = ?", x).Or("b IN ?", []int{y, z}).Group("a").Having("count(*) > ?", x)), []interface{}{x, y, z, x}
		}},
		{"select-joins-args", func(db *gorm.DB, x, y, z int) (*gorm.Statement, []interface{}) {
			return find(db.Table("t").Select("a, ? AS k", x).Joins("JOIN u ON u.id = t.a AND u.v = ?", y).Where("b = ?", z)), []interface{}{x, y, z}
		}},
		{"clauses-builders", func(db *gorm.DB, x, y, z int) (*gorm.Statement, []interface{}) {
			return find(db.Table("t").Clauses(clause.Where{Exprs: []clause.Expression{clause.Eq{Column: "a", Value: x}, clause.IN{Column: "b", Values: []interface{}{y, z}}, clause.Gt{Column: "c", Value: x}, clause.Like{Column: "d", Value: "p"}}})), []interface{}{x, y, z, x, "p"}
		}},
		{"map-struct-conditions", func(db *gorm.DB, x, y, z int) (*gorm.Statement, []interface{}) {
			return find(db.Table("t").Where(map[string]interface{}{"a": x, "b": []int{y, z}})), []interface{}{x, y, z}
		}},
		{"limit-offset", func(db *gorm.DB, x, y, z int) (*gorm.Statement, []interface{}) {
			verifrt.Assume(verifrt.And(y > 0, z > 0))
			return find(db.Table("t").Where("a = ?", x).Limit(y).Offset(z)), []interface{}{x, y, z}
		}},
		{"raw-scan", func(db *gorm.DB, x, y, z int) (*gorm.Statement, []interface{}) {
			var out []map[string]interface{}
			return db.Raw("SELECT * FROM t WHERE a = ? AND b IN (?) AND c = ?", x, []int{y, z}, "lit").Scan(&out).Statement, []interface{}{x, y, z, "lit"}
		}},
		{"exec", func(db *gorm.DB, x, y, z int) (*gorm.Statement, []interface{}) {
			return db.Exec("UPDATE t SET a = ?, b = ? WHERE c IN ?", x, "s", []int{y, z}).Statement, []interface{}{x, "s", y, z}
		}},
		{"update-map", func(db *gorm.DB, x, y, z int) (*gorm.Statement, []interface{}) {
			return db.Table("t").Where("c = ?", z).Updates(map[string]interface{}{"a": x, "b": gorm.Expr("b + ?", y)}).Statement, []interface{}{x, y, z}
		}},
		{"create-map", func(db *gorm.DB, x, y, z int) (*gorm.Statement, []interface{}) {
			return db.Table("t").Create(map[string]interface{}{"a": x, "b": y, "c": "s"}).Statement, []interface{}{x, y, "s"}
		}},
		{"create-struct-upsert", func(db *gorm.DB, x, y, z int) (*gorm.Statement, []interface{}) {
			st := db.Clauses(clause.OnConflict{Columns: []clause.Column{{Name: "id"}}, DoUpdates: clause.Assignments(map[string]interface{}{"age": z})}).Create(&Item{Name: "n", Age: x, Score: int64(y)}).Statement
			return st, []interface{}{"n", x, int64(y), z}
		}},
		{"delete-inline", func(db *gorm.DB, x, y, z int) (*gorm.Statement, []interface{}) {
			return db.Table("t").Delete(&Item{}, "a = ? OR b IN (?)", x, []int{y, z}).Statement, []interface{}{x, y, z}
		}},
		{"relation-join-on-values", func(db *gorm.DB, x, y, z int) (*gorm.Statement, []interface{}) {
			var out []Holder
			st := db.Model(&Holder{}).Select("holders.*, ? AS k", x).Joins("Doc", db.Where("rank > ? AND title <> ?", y, "t")).Where("holders.name = ?", "n").Find(&out).Statement
			return st, []interface{}{x, y, "t", "n"}
		}},
		{"two-relation-joins", func(db *gorm.DB, x, y, z int) (*gorm.Statement, []interface{}) {
			var out []Holder
			st := db.Model(&Holder{}).Joins("Doc", db.Where("rank > ?", x)).Where("holders.id IN ?", []int{y, z}).Find(&out).Statement
			return st, []interface{}{x, y, z}
		}},
		{"empty-bytes", func(db *gorm.DB, x, y, z int) (*gorm.Statement, []interface{}) {
			e := []byte{}
			return find(db.Table("t").Where("a = ? AND b = ?", e, x)), []interface{}{e, x}
		}},
		{"count-pluck", func(db *gorm.DB, x, y, z int) (*gorm.Statement, []interface{}) {
			var n int64
			return db.Table("t").Where("a = ?", x).Where("b <> ?", y).Count(&n).Statement, []interface{}{x, y}
		}},
	}
}

func N_C01_Forms(tier int) int { return 2 * len(c01Forms()) }

// placeholders of the text: positions of '?' (positional) or the numbers after '$'
func placeholders(sql string, numbered bool) []int {
	var r []int
	for i := 0; i < len(sql); i++ {
		if !numbered {
			if sql[i] == '?' {
				r = append(r, len(r)+1)
			}
			continue
		}
		if sql[i] == '$' {
			n, j := 0, i+1
			for j < len(sql) && sql[j] >= '0' && sql[j] <= '9' {
				n = n*10 + int(sql[j]-'0')
				j++
			}
			r = append(r, n)
			i = j - 1
		}
	}
	return r
}

func H_C01_Forms(shape int) {
	forms := c01Forms()
	f := forms[shape%len(forms)]
	numbered := shape >= len(forms)
	verifrt.Tag(f.name + map[bool]string{false: "/?", true: "/$n"}[numbered])
	x, y, z := verifrt.Int("arg_x"), verifrt.Int("arg_y"), verifrt.Int("arg_z")
	binds := []bindRec{}
	db := openDry(stubDialector{numbered: numbered, binds: &binds})
	stmt, want := f.run(db, x, y, z)
	sql := stmt.SQL.String()
	verifrt.Reach("built")
	verifrt.Observe("sql", sql)
	verifrt.Observe("nvars", len(stmt.Vars))
	verifrt.Observe("err", stmt.Error)
	verifrt.Assert(stmt.Error == nil || stmt.Error == gorm.ErrDryRunModeUnsupported, "C01.error")
	// one placeholder per bound value, numbered in text order
	ph := placeholders(sql, numbered)
	verifrt.Assert(len(ph) == len(stmt.Vars), "P2.placeholder-count")
	for i := range ph {
		verifrt.Assert(ph[i] == i+1, "P2.placeholder-number")
	}
	// nothing dropped, nothing added, same order
	verifrt.Assert(len(stmt.Vars) == len(want), "P3.value-count")
	for i := range want {
		if i < len(stmt.Vars) {
			verifrt.Assert(verifrt.SameValue(stmt.Vars[i], want[i]), "P3.value-order")
		}
	}
	// no argument symbol flows into the text
	verifrt.Assert(!verifrt.Mentions(sql, "arg_"), "P1.splice")
}

package verifh

import (
	"errors"

	"gorm.io/gorm"
)

// Instrumented model for C05/C13/C18: every hook appends (hook, record, in-tx)
// to a log, fails iff its invocation index equals the symbolic failAt, and can
// write through the handle it was given.

var errHook = errors.New("verif: hook error")

type hookCtl struct {
	events  []string
	inTx    []bool
	n       int
	failAt  int    // 1-based invocation index that fails (0 = none)
	writeIn string // hook name that writes an audit row through tx ("" = none)
	setIn   string // hook name that assigns Val (directly) or via SetColumn
	setVal  int
	setCol  bool
}

var hooks = &hookCtl{}

func hookEvent(tx *gorm.DB, hook string, rec *HRec) error {
	h := hooks
	h.n++
	_, inTx := tx.Statement.ConnPool.(gorm.TxCommitter)
	h.events = append(h.events, hook+":"+rec.Name)
	h.inTx = append(h.inTx, inTx)
	if h.writeIn == hook {
		if err := tx.Exec("INSERT INTO audit VALUES (?)", rec.Name).Error; err != nil {
			return err
		}
	}
	if h.setIn == hook {
		if h.setCol {
			tx.Statement.SetColumn("Val", h.setVal)
		} else {
			rec.Val = h.setVal
		}
	}
	if h.failAt != 0 && h.n == h.failAt {
		return errHook
	}
	return nil
}

type HRec struct {
	ID   uint
	Name string
	Val  int
	Kids []HKid `gorm:"foreignKey:HRecID"`
}

type HKid struct {
	ID     uint
	HRecID uint
	Name   string
}

func (r *HRec) BeforeSave(tx *gorm.DB) error   { return hookEvent(tx, "BeforeSave", r) }
func (r *HRec) BeforeCreate(tx *gorm.DB) error { return hookEvent(tx, "BeforeCreate", r) }
func (r *HRec) AfterCreate(tx *gorm.DB) error  { return hookEvent(tx, "AfterCreate", r) }
func (r *HRec) BeforeUpdate(tx *gorm.DB) error { return hookEvent(tx, "BeforeUpdate", r) }
func (r *HRec) AfterUpdate(tx *gorm.DB) error  { return hookEvent(tx, "AfterUpdate", r) }
func (r *HRec) AfterSave(tx *gorm.DB) error    { return hookEvent(tx, "AfterSave", r) }
func (r *HRec) BeforeDelete(tx *gorm.DB) error { return hookEvent(tx, "BeforeDelete", r) }
func (r *HRec) AfterDelete(tx *gorm.DB) error  { return hookEvent(tx, "AfterDelete", r) }
func (r *HRec) AfterFind(tx *gorm.DB) error    { return hookEvent(tx, "AfterFind", r) }

func (k *HKid) BeforeCreate(tx *gorm.DB) error {
	return hookEvent(tx, "Kid.BeforeCreate", &HRec{Name: k.Name})
}
func (k *HKid) AfterCreate(tx *gorm.DB) error {
	return hookEvent(tx, "Kid.AfterCreate", &HRec{Name: k.Name})
}

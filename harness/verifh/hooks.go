package verifh

import (
	"errors"

	"gorm.io/gorm"
)

// Instrumented model for C05/C13/C18: every hook appends (hook, record, in-tx)
// to a log, fails iff its invocation index equals the symbolic failAt, and can
// write through the handle it was given.

var errHook = errors.New("verif: hook error")

type hookCtl struct {
	events  []string
	inTx    []bool
	logPos  []int // length of the store's event log when the hook ran
	store   *Store
	n       int
	failAt  int    // 1-based invocation index that fails (0 = none)
	writeIn string // hook name that writes an audit row through tx ("" = none)
	setIn   string // hook name that assigns Val (directly) or via SetColumn
	setVal  int
	setCol  bool
}

var hooks = &hookCtl{}

func hookEvent(tx *gorm.DB, hook string, rec *HRec) error {
	h := hooks
	h.n++
	_, inTx := tx.Statement.ConnPool.(gorm.TxCommitter)
	h.events = append(h.events, hook+":"+rec.Name)
	h.inTx = append(h.inTx, inTx)
	if h.store != nil {
		h.logPos = append(h.logPos, len(h.store.Log))
	} else {
		h.logPos = append(h.logPos, 0)
	}
	if h.writeIn == hook {
		if err := tx.Exec("INSERT INTO audit VALUES (?)", rec.Name).Error; err != nil {
			return err
		}
	}
	if h.setIn == hook {
		if h.setCol {
			tx.Statement.SetColumn("Val", h.setVal)
		} else {
			rec.Val = h.setVal
		}
	}
	if h.failAt != 0 && h.n == h.failAt {
		return errHook
	}
	return nil
}

type HRec struct {
	ID   uint
	Name string
	Val  int
	Kids []HKid `gorm:"foreignKey:HRecID"`
}

type HKid struct {
	ID     uint
	HRecID uint
	Name   string
}

func (r *HRec) BeforeSave(tx *gorm.DB) error   { return hookEvent(tx, "BeforeSave", r) }
func (r *HRec) BeforeCreate(tx *gorm.DB) error { return hookEvent(tx, "BeforeCreate", r) }
func (r *HRec) AfterCreate(tx *gorm.DB) error  { return hookEvent(tx, "AfterCreate", r) }
func (r *HRec) BeforeUpdate(tx *gorm.DB) error { return hookEvent(tx, "BeforeUpdate", r) }
func (r *HRec) AfterUpdate(tx *gorm.DB) error  { return hookEvent(tx, "AfterUpdate", r) }
func (r *HRec) AfterSave(tx *gorm.DB) error    { return hookEvent(tx, "AfterSave", r) }
func (r *HRec) BeforeDelete(tx *gorm.DB) error { return hookEvent(tx, "BeforeDelete", r) }
func (r *HRec) AfterDelete(tx *gorm.DB) error  { return hookEvent(tx, "AfterDelete", r) }
func (r *HRec) AfterFind(tx *gorm.DB) error    { return hookEvent(tx, "AfterFind", r) }

func (k *HKid) BeforeCreate(tx *gorm.DB) error {
	return hookEvent(tx, "Kid.BeforeCreate", &HRec{Name: k.Name})
}
func (k *HKid) AfterCreate(tx *gorm.DB) error {
	return hookEvent(tx, "Kid.AfterCreate", &HRec{Name: k.Name})
}

// A hooked belongs-to target shared by several parents (C13).
type HBoss struct {
	ID   uint
	Name string
}

func (b *HBoss) BeforeSave(tx *gorm.DB) error {
	return hookEvent(tx, "Boss.BeforeSave", &HRec{Name: b.Name})
}
func (b *HBoss) BeforeCreate(tx *gorm.DB) error {
	return hookEvent(tx, "Boss.BeforeCreate", &HRec{Name: b.Name})
}
func (b *HBoss) AfterCreate(tx *gorm.DB) error {
	return hookEvent(tx, "Boss.AfterCreate", &HRec{Name: b.Name})
}
func (b *HBoss) AfterSave(tx *gorm.DB) error {
	return hookEvent(tx, "Boss.AfterSave", &HRec{Name: b.Name})
}

type HWorker struct {
	ID     uint
	Name   string
	BossID uint
	Boss   *HBoss
}

// A has-many whose children keep a back-reference to their parent (C13: the
// children are reached twice while the graph is saved, their hooks fire once).
type HOrder struct {
	ID    uint
	Name  string
	Items []*HItem `gorm:"foreignKey:OrderID"`
}

type HItem struct {
	ID      uint
	Name    string
	OrderID uint
	Order   *HOrder `gorm:"foreignKey:OrderID"`
}

func (i *HItem) BeforeSave(tx *gorm.DB) error {
	return hookEvent(tx, "Item.BeforeSave", &HRec{Name: i.Name})
}
func (i *HItem) BeforeCreate(tx *gorm.DB) error {
	return hookEvent(tx, "Item.BeforeCreate", &HRec{Name: i.Name})
}
func (i *HItem) AfterCreate(tx *gorm.DB) error {
	return hookEvent(tx, "Item.AfterCreate", &HRec{Name: i.Name})
}
func (i *HItem) AfterSave(tx *gorm.DB) error {
	return hookEvent(tx, "Item.AfterSave", &HRec{Name: i.Name})
}

// Children reached through Preload (C13: AfterFind once per loaded child).
type HShelf struct {
	ID    uint
	Name  string
	Books []HBook `gorm:"foreignKey:ShelfID"`
}

type HBook struct {
	ID      uint
	Name    string
	ShelfID uint
}

type HBookmark struct {
	ID     uint
	BookID uint
	Book   *HBook `gorm:"foreignKey:BookID"`
}

func (b *HBook) AfterFind(tx *gorm.DB) error {
	return hookEvent(tx, "Book.AfterFind", &HRec{Name: b.Name})
}

// ---- models that define exactly one hook each (C13: hook detection must not
// depend on another hook being defined too)

type HOnly1 struct {
	ID   uint
	Name string
}
type HOnly2 struct {
	ID   uint
	Name string
}
type HOnly3 struct {
	ID   uint
	Name string
}
type HOnly4 struct {
	ID   uint
	Name string
}
type HOnly5 struct {
	ID   uint
	Name string
}
type HOnly6 struct {
	ID   uint
	Name string
}
type HOnly7 struct {
	ID   uint
	Name string
}
type HOnly8 struct {
	ID   uint
	Name string
}
type HOnly9 struct {
	ID   uint
	Name string
}

func (r *HOnly1) BeforeSave(tx *gorm.DB) error {
	return hookEvent(tx, "BeforeSave", &HRec{Name: r.Name})
}
func (r *HOnly2) BeforeCreate(tx *gorm.DB) error {
	return hookEvent(tx, "BeforeCreate", &HRec{Name: r.Name})
}
func (r *HOnly3) AfterCreate(tx *gorm.DB) error {
	return hookEvent(tx, "AfterCreate", &HRec{Name: r.Name})
}
func (r *HOnly4) BeforeUpdate(tx *gorm.DB) error {
	return hookEvent(tx, "BeforeUpdate", &HRec{Name: r.Name})
}
func (r *HOnly5) AfterUpdate(tx *gorm.DB) error {
	return hookEvent(tx, "AfterUpdate", &HRec{Name: r.Name})
}
func (r *HOnly6) AfterSave(tx *gorm.DB) error { return hookEvent(tx, "AfterSave", &HRec{Name: r.Name}) }
func (r *HOnly7) BeforeDelete(tx *gorm.DB) error {
	return hookEvent(tx, "BeforeDelete", &HRec{Name: r.Name})
}
func (r *HOnly8) AfterDelete(tx *gorm.DB) error {
	return hookEvent(tx, "AfterDelete", &HRec{Name: r.Name})
}
func (r *HOnly9) AfterFind(tx *gorm.DB) error { return hookEvent(tx, "AfterFind", &HRec{Name: r.Name}) }

package verifh

import (
	"database/sql/driver"
	"errors"

	"gorm.io/gorm"
	"gorm.io/gorm/internal/verifrt"
)

// C14 — the prepared-statement cache is transparent, leak-free and safe in any
// interleaving.

const (
	c14Q1 = "UPDATE items SET age = 1"
	c14Q2 = "UPDATE items SET age = 2"
	c14S1 = "SELECT name FROM items WHERE id = 1"
)

var c14OpNames = []string{"exec-q1", "exec-q2", "tx-exec-q1", "tx-row-s1", "row-s1", "query-s1", "reset", "session-exec-q1", "tx-exec-q2-rollback", "tx-session-exec-rollback", "begin-exec-q1-rollback", "tx-query-s1"}

// c14Op runs one operation and reports (error, rows/affected ok)
func c14Op(db *gorm.DB, op string) error {
	switch op {
	case "exec-q1":
		return db.Exec(c14Q1).Error
	case "exec-q2":
		return db.Exec(c14Q2).Error
	case "session-exec-q1":
		return db.Session(&gorm.Session{PrepareStmt: true}).Exec(c14Q1).Error
	case "tx-exec-q1":
		return db.Transaction(func(tx *gorm.DB) error { return tx.Exec(c14Q1).Error })
	case "tx-exec-q2-rollback":
		err := db.Transaction(func(tx *gorm.DB) error {
			if e := tx.Exec(c14Q2).Error; e != nil {
				return e
			}
			return errBlock
		})
		if errors.Is(err, errBlock) {
			return nil
		}
		return err
	case "tx-session-exec-rollback":
		// a handle derived with Session{PrepareStmt} inside a transaction stays inside it
		err := db.Transaction(func(tx *gorm.DB) error {
			if e := tx.Session(&gorm.Session{PrepareStmt: true}).Exec(c14Q1).Error; e != nil {
				return e
			}
			return errBlock
		})
		if errors.Is(err, errBlock) {
			return nil
		}
		return err
	case "begin-exec-q1-rollback":
		tx := db.Begin()
		if tx.Error != nil {
			return tx.Error
		}
		e := tx.Exec(c14Q1).Error
		tx.Rollback()
		return e
	case "tx-row-s1":
		return db.Transaction(func(tx *gorm.DB) error {
			var name string
			return tx.Raw(c14S1).Row().Scan(&name)
		})
	case "tx-query-s1":
		return db.Transaction(func(tx *gorm.DB) error {
			var names []string
			return tx.Raw(c14S1).Scan(&names).Error
		})
	case "row-s1":
		var name string
		return db.Raw(c14S1).Row().Scan(&name)
	case "query-s1":
		var names []string
		return db.Raw(c14S1).Scan(&names).Error
	case "reset":
		if p, ok := db.ConnPool.(*gorm.PreparedStmtDB); ok {
			p.Reset()
		}
		return nil
	}
	return nil
}

func c14Store() *Store {
	s := NewStore()
	s.OnQuery = func(text string, args []driver.Value) RowSet {
		return RowSet{Cols: []string{"name"}, Rows: [][]driver.Value{{"n"}}}
	}
	return s
}

// cleanError: the injected fault, or the documented errors of a closed cache
func c14Clean(err error) bool {
	return err == nil || errors.Is(err, errInjected) || errors.Is(err, gorm.ErrInvalidDB) || errors.Is(err, driver.ErrBadConn)
}

// ---- sequences of operations on one goroutine

// three-operation sequences that also run in the quick tier: a text cached by a direct
// call, used inside a transaction (where the fault may hit), then used directly again
var c14QuickTriples = [][]int{{0, 2, 0}, {0, 2, 7}, {1, 8, 1}, {5, 3, 5}, {4, 3, 4}, {0, 10, 0}, {7, 9, 0}, {0, 6, 0}, {5, 11, 5}, {11, 5, 5}}

func c14SeqShapes(tier int) [][]int {
	var r [][]int
	n := len(c14OpNames)
	for a := 0; a < n; a++ {
		for b := 0; b < n; b++ {
			r = append(r, []int{a, b})
		}
	}
	r = append(r, c14QuickTriples...)
	if tier > 0 {
		for a := 0; a < n; a++ {
			for b := 0; b < n; b++ {
				for c := 0; c < n; c++ {
					quick := false
					for _, q := range c14QuickTriples {
						if q[0] == a && q[1] == b && q[2] == c {
							quick = true
						}
					}
					if !quick {
						r = append(r, []int{a, b, c})
					}
				}
			}
		}
	}
	return r
}

func N_C14_Seq(tier int) int { return len(c14SeqShapes(tier)) }

func H_C14_Seq(shape int) {
	shapes := verifrt.Memo("c14Seq1", func() interface{} { return c14SeqShapes(1) }).([][]int)
	ops := shapes[shape]
	desc := ""
	for i, o := range ops {
		if i > 0 {
			desc += ","
		}
		desc += c14OpNames[o]
	}
	verifrt.Tag(desc)
	verifrt.Preemptions(0) // one goroutine: spawned closers run when it blocks or joins
	s := c14Store()
	s.PrepareFaultAt = verifrt.Intn("prepare_fault_at", 0, 3)
	s.FaultAt = verifrt.Intn("fault_at", 0, 4)
	// the statement fault may be a lost connection when it hits a call inside a
	// transaction (driver.ErrBadConn, sticky for that transaction); outside
	// transactions database/sql repeats the call on other connections, below the
	// boundary, and the error reaches gorm when they all fail
	s.BadConn = verifrt.Bool("bad_conn")
	s.BadConnOutside = s.BadConn
	verifrt.Assume(verifrt.Or(!s.BadConn, s.FaultAt != 0))
	verifrt.Assume(verifrt.Or(s.PrepareFaultAt == 0, s.FaultAt == 0))
	db := openPrepared(s, &gorm.Config{SkipDefaultTransaction: true})
	// the same operations in non-prepared mode on a twin store: the reference result
	ref := c14Store()
	plain := openReal(stubDialector{}, ref, &gorm.Config{SkipDefaultTransaction: true})
	for _, o := range ops {
		name := c14OpNames[o]
		before := s.Calls()
		pbefore := s.gormPrepares
		err := c14Op(db, name)
		// closers the operation spawned finish before the next operation starts
		verifrt.WaitAll()
		verifrt.Assert(c14Clean(err), "C14.unclean-error")
		stmtFault := s.FaultAt != 0 && before < s.FaultAt && s.Calls() >= s.FaultAt
		prepFault := s.PrepareFaultAt != 0 && pbefore < s.PrepareFaultAt && s.gormPrepares >= s.PrepareFaultAt
		if stmtFault {
			verifrt.Assert(err != nil, "C14.fault-swallowed")
		} else if !prepFault || err == nil {
			// transparent: the same outcome as in non-prepared mode (a failed
			// preparation is either reported or the operation still answers like
			// the non-prepared mode)
			want := c14Op(plain, name)
			verifrt.Assert((err == nil) == (want == nil), "C14.not-transparent")
		}
	}
	verifrt.Reach("ops-done")
	verifrt.Observe("log", s.Kinds())
	verifrt.Assert(s.OpenTx() == 0, "C14.tx-open")
	// the same rows as in non-prepared mode: without a fault both stores hold the same number of durable writes
	if s.FaultAt == 0 && s.PrepareFaultAt == 0 {
		verifrt.Assert(len(s.Durable) == len(ref.Durable), "C14.different-rows")
	}
	// closing the cache closes every statement it prepared
	if p, ok := db.ConnPool.(*gorm.PreparedStmtDB); ok {
		p.Close()
	}
	verifrt.WaitAll()
	verifrt.Settle(func() bool { return s.OpenStmtsNow() == 0 })
	verifrt.Assert(s.OpenStmtsNow() == 0, "C14.statement-leak")
	// after Close every operation fails cleanly
	err := c14Op(db, "exec-q1")
	verifrt.Assert(err != nil && c14Clean(err), "C14.use-after-close")
}

// ---- two goroutines

var c14ThreadOps = []string{"exec-q1", "tx-exec-q1", "query-s1", "reset", "exec-q2", "close"}

// quick: every pair with at most one preemption; thorough: the same pairs again with two
// plus, in both tiers, three same-text pairs with two preemptions
func N_C14_Threads(tier int) int { return (1+tier)*len(c14ThreadOps)*len(c14ThreadOps) + 3 }

var c14DeepPairs = []int{0, 1, 7} // exec-q1|exec-q1, exec-q1|tx-exec-q1, tx-exec-q1|tx-exec-q1

func H_C14_Threads(shape int) {
	npairs := len(c14ThreadOps) * len(c14ThreadOps)
	if shape < 3 {
		verifrt.Preemptions(2)
		shape = c14DeepPairs[shape]
	} else {
		shape -= 3
		verifrt.Preemptions(1 + shape/npairs)
		shape = shape % npairs
	}
	o1, o2 := c14ThreadOps[shape/len(c14ThreadOps)], c14ThreadOps[shape%len(c14ThreadOps)]
	verifrt.Tag(o1 + "|" + o2)
	s := c14Store()
	s.PrepareFaultAt = verifrt.Intn("prepare_fault_at", 0, 2)
	db := openPrepared(s, &gorm.Config{SkipDefaultTransaction: true})
	pdb, _ := db.ConnPool.(*gorm.PreparedStmtDB)
	var e1, e2 error
	d1, d2 := false, false
	run := func(op string) error {
		if op == "close" {
			pdb.Close()
			return nil
		}
		return c14Op(db, op)
	}
	// both goroutines are parked on the cache's (exported) lock and released
	// together, so that both can miss the read-locked lookup
	pdb.Mux.Lock()
	verifrt.Go(func() { e1 = run(o1); d1 = true })
	verifrt.Go(func() { e2 = run(o2); d2 = true })
	verifrt.StartAll()
	pdb.Mux.Unlock()
	verifrt.WaitAll()
	verifrt.Reach("joined")
	// no goroutine deadlocks; every operation returns its rows or a clean error
	verifrt.Assert(d1 && d2, "C14.goroutine-stuck")
	closing := o1 == "close" || o2 == "close"
	resetting := o1 == "reset" || o2 == "reset"
	// a statement handed out just before a concurrent Close (or Reset) reports
	// "sql: statement is closed": clean once the cache is closed; for Reset it is
	// tolerated here because the schedule cannot be reproduced natively (DESIGN §4 C14)
	okErr := func(e error) bool {
		return c14Clean(e) || ((closing || resetting) && e.Error() == "sql: statement is closed")
	}
	verifrt.Assert(okErr(e1), "C14.unclean-error")
	verifrt.Assert(okErr(e2), "C14.unclean-error")
	fired := s.PrepareFaultAt != 0 && s.gormPrepares >= s.PrepareFaultAt
	if !closing && !resetting && !fired {
		verifrt.Assert(e1 == nil && e2 == nil, "C14.spurious-error")
	}
	// a statement text is prepared at most once per cache generation
	if !closing && !resetting && !fired && o1 != "tx-exec-q1" && o2 != "tx-exec-q1" {
		n1, n2 := countOf(s.gormPrepareTexts, c14Q1), countOf(s.gormPrepareTexts, c14Q2)
		verifrt.Assert(n1 <= 1 && n2 <= 1, "C14.prepared-twice")
	}
	// a failed preparation is reported to every waiter and not cached
	if fired && o1 == o2 && (o1 == "exec-q1" || o1 == "exec-q2") && s.gormPrepares == 1 {
		verifrt.Assert(e1 != nil && e2 != nil, "C14.failure-not-reported-to-waiter")
	}
	if pdb != nil {
		pdb.Close()
	}
	verifrt.WaitAll()
	verifrt.Settle(func() bool { return s.OpenStmtsNow() == 0 })
	verifrt.Assert(s.OpenStmtsNow() == 0, "C14.statement-leak")
}

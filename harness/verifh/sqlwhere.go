package verifh

import (
	"gorm.io/gorm/internal/verifrt"
)

// sqlwhere: the oracle for C02/C08. It tokenises the WHERE text emitted by
// gorm (bytes may be symbolic: whitespace positions and keyword letter case in
// raw units), parses it with SQL precedence NOT > AND > OR, and evaluates it
// over one symbolic table row in three-valued logic. The only SQL lexical
// knowledge trusted: keywords are case-insensitive and delimited by any
// whitespace or parenthesis.

// tv3 is a three-valued truth value as a pair of (possibly symbolic) booleans.
type tv3 struct{ t, f bool }

func tvAnd(x, y tv3) tv3 { return tv3{verifrt.And(x.t, y.t), verifrt.Or(x.f, y.f)} }
func tvOr(x, y tv3) tv3  { return tv3{verifrt.Or(x.t, y.t), verifrt.And(x.f, y.f)} }
func tvNot(x tv3) tv3    { return tv3{x.f, x.t} }

var tvTrue = tv3{true, false}

// one table row: nullable integer columns
type sqlRow struct {
	cols  []string
	vals  []int
	nulls []bool
	tabs  []string // optional: table of each column (joined rows); qualified references then match table and column
}

// colRef resolves a (possibly qualified and quoted) column reference.
func (r *sqlRow) colRef(w string) (int, bool, bool) {
	if r.tabs == nil {
		return r.col(stripQuotes(w))
	}
	tab, name := splitQualified(w)
	for i := range r.cols {
		if r.cols[i] == name && (tab == "" || r.tabs[i] == tab) {
			return r.vals[i], r.nulls[i], true
		}
	}
	return 0, false, false
}

// splitQualified: `t`.`a` -> (t, a) ; `a` -> ("", a)
func splitQualified(w string) (string, string) {
	clean := make([]byte, 0, len(w))
	dot := -1
	for i := 0; i < len(w); i++ {
		if w[i] == '`' {
			continue
		}
		if w[i] == '.' {
			dot = len(clean)
		}
		clean = append(clean, w[i])
	}
	if dot < 0 {
		return "", string(clean)
	}
	return string(clean[:dot]), string(clean[dot+1:])
}

func (r *sqlRow) col(name string) (int, bool, bool) {
	for i := range r.cols {
		if r.cols[i] == name {
			return r.vals[i], r.nulls[i], true
		}
	}
	return 0, false, false
}

func newSymRow(cols ...string) *sqlRow {
	r := &sqlRow{cols: cols}
	for _, c := range cols {
		r.vals = append(r.vals, verifrt.Int("row_"+c))
		r.nulls = append(r.nulls, verifrt.Bool("row_"+c+"_null"))
	}
	return r
}

// argInt reads a bound value: (value, isNull, ok)
func argInt(v interface{}) (int, bool, bool) {
	switch x := v.(type) {
	case nil:
		return 0, true, true
	case int:
		return x, false, true
	case int64:
		return int(x), false, true
	case uint:
		return int(x), false, true
	case *int:
		if x == nil {
			return 0, true, true
		}
		return *x, false, true
	case string:
		return internStr(x), false, true // text compares by interned code (relational model)
	}
	return 0, false, false
}

func cmp3(op string, cv int, cn bool, av int, an bool) tv3 {
	known := verifrt.And(!cn, !an)
	var r bool
	switch op {
	case "=":
		r = cv == av
	case "<>", "!=":
		r = cv != av
	case "<":
		r = cv < av
	case ">":
		r = cv > av
	case "<=":
		r = cv <= av
	case ">=":
		r = cv >= av
	default:
		verifrt.Fail("sqlwhere.unknown-operator")
	}
	return tv3{verifrt.And(known, r), verifrt.And(known, !r)}
}

// ---- tokeniser over possibly-symbolic bytes

func isSpaceB(b byte) bool {
	return verifrt.Or(verifrt.Or(b == ' ', b == '\t'), verifrt.Or(b == '\n', b == '\r'))
}

func isWordB(b byte) bool {
	l := b | 0x20
	return verifrt.Or(verifrt.Or(verifrt.And(l >= 'a', l <= 'z'), verifrt.And(b >= '0', b <= '9')),
		verifrt.Or(verifrt.Or(b == '_', b == '`'), verifrt.Or(b == '.', b == '@')))
}

type sqlTok struct {
	kind string // word ( ) ? op ,
	text string // lower-cased for words
}

func sqlTokens(s string) []sqlTok {
	var toks []sqlTok
	i := 0
	for i < len(s) {
		b := s[i]
		switch {
		case isSpaceB(b):
			i++
		case b == '(' || b == ')' || b == '?' || b == ',':
			toks = append(toks, sqlTok{kind: string([]byte{b})})
			i++
		case b == '=':
			toks = append(toks, sqlTok{kind: "op", text: "="})
			i++
		case b == '<' || b == '>' || b == '!':
			op := string([]byte{b})
			if i+1 < len(s) && (s[i+1] == '=' || s[i+1] == '>') {
				op += string([]byte{s[i+1]})
				i++
			}
			i++
			toks = append(toks, sqlTok{kind: "op", text: op})
		case isWordB(b):
			j := i
			w := make([]byte, 0, 8)
			inQuote := false
			for j < len(s) && (inQuote || isWordB(s[j])) {
				c := s[j]
				// a backquoted identifier directly after a bare word (OR`b`) starts a new token
				if c == '`' {
					if !inQuote && len(w) > 0 && w[len(w)-1] != '.' {
						break
					}
					inQuote = !inQuote
				}
				// lower-case letters without branching on the case bit
				if verifrt.And((c|0x20) >= 'a', (c|0x20) <= 'z') {
					c = c | 0x20
				}
				w = append(w, c)
				j++
			}
			toks = append(toks, sqlTok{kind: "word", text: concreteWord(w)})
			i = j
		default:
			verifrt.Fail("sqlwhere.unexpected-byte")
		}
	}
	return toks
}

// concreteWord turns the lower-cased bytes of a word into a concrete string:
// a lower-cased keyword letter is entailed to be one concrete letter.
func concreteWord(w []byte) string {
	out := make([]byte, len(w))
	for i, c := range w {
		out[i] = verifrt.ConcretizeByte(c, "abcdefghijklmnopqrstuvwxyz0123456789_`.@")
	}
	return string(out)
}

// ---- parser / evaluator

type sqlParser struct {
	toks []sqlTok
	pos  int
	vars []interface{}
	nvar int
	row  *sqlRow
	// soft: an unknown column is recorded in err instead of failing the run (the
	// relational model turns it into a statement error, like a database would)
	soft bool
	err  string
}

func (p *sqlParser) peek() sqlTok {
	if p.pos < len(p.toks) {
		return p.toks[p.pos]
	}
	return sqlTok{kind: "eof"}
}
func (p *sqlParser) next() sqlTok { t := p.peek(); p.pos++; return t }
func (p *sqlParser) isWord(w string) bool {
	t := p.peek()
	return t.kind == "word" && t.text == w
}

func (p *sqlParser) arg() (int, bool) {
	if p.nvar >= len(p.vars) {
		verifrt.Fail("sqlwhere.more-placeholders-than-values")
	}
	v, n, ok := argInt(p.vars[p.nvar])
	if !ok {
		verifrt.Fail("sqlwhere.unsupported-bound-value")
	}
	p.nvar++
	return v, n
}

func (p *sqlParser) parseOr() tv3 {
	v := p.parseAnd()
	for p.isWord("or") {
		p.next()
		v = tvOr(v, p.parseAnd())
	}
	return v
}

func (p *sqlParser) parseAnd() tv3 {
	v := p.parseNot()
	for p.isWord("and") {
		p.next()
		v = tvAnd(v, p.parseNot())
	}
	return v
}

func (p *sqlParser) parseNot() tv3 {
	if p.isWord("not") {
		p.next()
		return tvNot(p.parseNot())
	}
	return p.parsePrimary()
}

func stripQuotes(w string) string {
	// `t`.`a` -> a ; t.a -> a ; `a` -> a
	last := 0
	for i := 0; i < len(w); i++ {
		if w[i] == '.' {
			last = i + 1
		}
	}
	w = w[last:]
	out := make([]byte, 0, len(w))
	for i := 0; i < len(w); i++ {
		if w[i] != '`' {
			out = append(out, w[i])
		}
	}
	return string(out)
}

func (p *sqlParser) parsePrimary() tv3 {
	t := p.next()
	if t.kind == "(" {
		v := p.parseOr()
		if p.next().kind != ")" {
			verifrt.Fail("sqlwhere.unbalanced-parenthesis")
		}
		return v
	}
	if t.kind != "word" {
		verifrt.Fail("sqlwhere.expected-column:" + t.kind)
	}
	cv, cn, ok := p.row.colRef(t.text)
	if !ok {
		if p.soft {
			p.err = "no such column: " + t.text
		} else {
			verifrt.Fail("sqlwhere.unknown-column:" + t.text)
		}
	}
	n := p.next()
	switch {
	case n.kind == "op":
		rhs := p.next()
		if rhs.kind == "word" {
			// column compared with column (join conditions)
			ov, on, ok := p.row.colRef(rhs.text)
			if !ok {
				verifrt.Fail("sqlwhere.unknown-column:" + rhs.text)
			}
			return cmp3(n.text, cv, cn, ov, on)
		}
		if rhs.kind != "?" {
			verifrt.Fail("sqlwhere.expected-placeholder")
		}
		av, an := p.arg()
		return cmp3(n.text, cv, cn, av, an)
	case n.kind == "word" && n.text == "is":
		neg := false
		if p.isWord("not") {
			p.next()
			neg = true
		}
		if !p.isWord("null") {
			verifrt.Fail("sqlwhere.expected-null")
		}
		p.next()
		r := tv3{cn, !cn}
		if neg {
			r = tvNot(r)
		}
		return r
	case n.kind == "word" && (n.text == "in" || n.text == "not"):
		neg := false
		if n.text == "not" {
			neg = true
			if !p.isWord("in") {
				verifrt.Fail("sqlwhere.expected-in")
			}
			p.next()
		}
		if p.next().kind != "(" {
			verifrt.Fail("sqlwhere.expected-paren-after-in")
		}
		r := tv3{false, true} // empty disjunction
		for first := true; ; first = false {
			if first && p.peek().kind == ")" {
				// the empty list (SQLite accepts it): IN () is false, NOT IN () true, for NULL too
				p.next()
				break
			}
			e := p.next()
			if e.kind == "?" {
				av, an := p.arg()
				r = tvOr(r, cmp3("=", cv, cn, av, an))
			} else if e.kind == "word" && e.text == "null" {
				r = tvOr(r, tv3{false, false})
			} else {
				verifrt.Fail("sqlwhere.bad-in-list")
			}
			sep := p.next()
			if sep.kind == ")" {
				break
			}
			if sep.kind != "," {
				verifrt.Fail("sqlwhere.bad-in-list")
			}
		}
		if neg {
			r = tvNot(r)
		}
		return r
	}
	verifrt.Fail("sqlwhere.unexpected-token-after-column:" + n.kind + n.text)
	return tv3{}
}

// evalWhere parses the text after WHERE and returns its value on the row,
// together with the number of bound values it consumed.
// evalWhereSoft is evalWhere for the relational model: unknown columns are reported, not fatal.
func evalWhereSoft(text string, vars []interface{}, row *sqlRow) (tv3, int, string) {
	p := &sqlParser{toks: sqlTokens(text), vars: vars, row: row, soft: true}
	v := p.parseOr()
	if p.pos != len(p.toks) {
		verifrt.Fail("sqlwhere.trailing-tokens")
	}
	return v, p.nvar, p.err
}

func evalWhere(text string, vars []interface{}, row *sqlRow) (tv3, int) {
	p := &sqlParser{toks: sqlTokens(text), vars: vars, row: row}
	v := p.parseOr()
	if p.pos != len(p.toks) {
		verifrt.Fail("sqlwhere.trailing-tokens")
	}
	return v, p.nvar
}

// whereText returns the part of a statement after " WHERE " (up to ORDER BY / LIMIT).
func whereText(sql string) (string, bool) {
	i := indexStr(sql, " WHERE ")
	if i < 0 {
		return "", false
	}
	w := sql[i+len(" WHERE "):]
	for _, end := range []string{" ORDER BY ", " LIMIT ", " GROUP BY "} {
		if j := indexStr(w, end); j >= 0 {
			w = w[:j]
		}
	}
	return w, true
}

// indexStr finds a concrete needle in a string whose bytes may be symbolic;
// the needle's position is decided on concrete text only (gorm's own keywords).
func indexStr(s, needle string) int {
	for i := 0; i+len(needle) <= len(s); i++ {
		if verifrt.EqStr(s[i:i+len(needle)], needle) {
			return i
		}
	}
	return -1
}

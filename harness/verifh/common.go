// Package verifh holds the harnesses, stubs and reference models. It is
// mapped into /repo as gorm.io/gorm/internal/verifh by overlay only; the same
// sources are interpreted symbolically and compiled natively for replay.
package verifh

import (
	"context"
	"database/sql"
	"strconv"
	"time"

	"gorm.io/gorm"
	"gorm.io/gorm/callbacks"
	"gorm.io/gorm/clause"
	"gorm.io/gorm/logger"
	"gorm.io/gorm/schema"
)

// ---- logger stub: empty bodies (logging is not the subject of any property)

type stubLogger struct{}

func (stubLogger) LogMode(logger.LogLevel) logger.Interface                        { return stubLogger{} }
func (stubLogger) Info(context.Context, string, ...interface{})                    {}
func (stubLogger) Warn(context.Context, string, ...interface{})                    {}
func (stubLogger) Error(context.Context, string, ...interface{})                   {}
func (stubLogger) Trace(context.Context, time.Time, func() (string, int64), error) {}

// ---- namer stub: lower-cased names, table = lower(name)+"s"

type stubNamer struct{}

func lower(s string) string {
	b := []byte(s)
	for i := range b {
		if b[i] >= 'A' && b[i] <= 'Z' {
			b[i] += 32
		}
	}
	return string(b)
}
func (stubNamer) TableName(t string) string                       { return lower(t) + "s" }
func (stubNamer) SchemaName(t string) string                      { return t }
func (stubNamer) ColumnName(t, c string) string                   { return lower(c) }
func (stubNamer) JoinTableName(t string) string                   { return lower(t) }
func (stubNamer) RelationshipFKName(r schema.Relationship) string { return "fk_" + lower(r.Name) }
func (stubNamer) CheckerName(t, c string) string                  { return "chk_" + c }
func (stubNamer) IndexName(t, c string) string                    { return "idx_" + c }
func (stubNamer) UniqueName(t, c string) string                   { return "uni_" + c }

// ---- dialector stub

type bindRec struct {
	pos int         // byte offset in the SQL text where the placeholder starts
	num int         // number written after '$' (numbered dialect)
	val interface{} // value handed to BindVarTo
}

type stubDialector struct {
	numbered  bool
	returning bool
	reversed  bool
	binds     *[]bindRec
	// nullDefault: a column left to the database is written as NULL (SQLite style) instead of DEFAULT
	nullDefault bool
}

func (stubDialector) Name() string { return "stub" }
func (d stubDialector) Initialize(db *gorm.DB) error {
	cfg := &callbacks.Config{LastInsertIDReversed: d.reversed}
	if d.returning {
		cfg.CreateClauses = []string{"INSERT", "VALUES", "ON CONFLICT", "RETURNING"}
		cfg.UpdateClauses = []string{"UPDATE", "SET", "FROM", "WHERE", "RETURNING"}
		cfg.DeleteClauses = []string{"DELETE", "FROM", "WHERE", "RETURNING"}
	}
	callbacks.RegisterDefaultCallbacks(db, cfg)
	return nil
}
func (stubDialector) Migrator(*gorm.DB) gorm.Migrator { return nil }
func (stubDialector) DataTypeOf(*schema.Field) string { return "" }
func (d stubDialector) DefaultValueOf(*schema.Field) clause.Expression {
	if d.nullDefault {
		return clause.Expr{SQL: "NULL"}
	}
	return clause.Expr{SQL: "DEFAULT"}
}
func (d stubDialector) BindVarTo(w clause.Writer, stmt *gorm.Statement, v interface{}) {
	rec := bindRec{pos: stmt.SQL.Len(), val: v}
	if d.numbered {
		rec.num = len(stmt.Vars)
		w.WriteByte('$')
		w.WriteString(strconv.Itoa(len(stmt.Vars)))
	} else {
		w.WriteByte('?')
	}
	if d.binds != nil {
		*d.binds = append(*d.binds, rec)
	}
}
func (stubDialector) QuoteTo(w clause.Writer, s string) {
	w.WriteByte('`')
	w.WriteString(s)
	w.WriteByte('`')
}
func (stubDialector) Explain(sql string, vars ...interface{}) string { return sql }
func (stubDialector) SavePoint(tx *gorm.DB, name string) error {
	return tx.Exec("SAVEPOINT " + name).Error
}
func (stubDialector) RollbackTo(tx *gorm.DB, name string) error {
	return tx.Exec("ROLLBACK TO SAVEPOINT " + name).Error
}

// openDry opens a DryRun handle over the stub dialector (no connection pool).
func openDry(d stubDialector) *gorm.DB {
	db, err := gorm.Open(d, &gorm.Config{Logger: stubLogger{}, DryRun: true, SkipDefaultTransaction: true,
		DisableAutomaticPing: true, NamingStrategy: stubNamer{}})
	if err != nil {
		panic("open: " + err.Error())
	}
	return db
}

func countByte(s string, c byte) int {
	n := 0
	for i := 0; i < len(s); i++ {
		if s[i] == c {
			n++
		}
	}
	return n
}

// openReal opens a handle over the database/sql boundary store.
func openReal(d stubDialector, s *Store, cfg *gorm.Config) *gorm.DB {
	if cfg == nil {
		cfg = &gorm.Config{}
	}
	cfg.Logger = stubLogger{}
	cfg.DisableAutomaticPing = true
	if cfg.NamingStrategy == nil {
		cfg.NamingStrategy = stubNamer{}
	}
	cfg.ConnPool = OpenPool(s)
	db, err := gorm.Open(d, cfg)
	if err != nil {
		panic("open: " + err.Error())
	}
	return db
}

// dbPool returns the *sql.DB behind a handle opened by openReal.
func dbPool(db *gorm.DB) *sql.DB {
	p, err := db.DB()
	if err != nil {
		panic("db.DB: " + err.Error())
	}
	return p
}

package verifh

import (
	"database/sql"
	"database/sql/driver"
	"time"

	"gorm.io/gorm"
	"gorm.io/gorm/clause"
	"gorm.io/gorm/internal/verifrt"
)

func countSub(s, sub string) int {
	n := 0
	for i := 0; i+len(sub) <= len(s); i++ {
		if s[i:i+len(sub)] == sub {
			n++
		}
	}
	return n
}

// C03 — what Create stores is what queries load back. Round trip: Create binds
// the record's values (real ConvertToCreateValues + database/sql's real
// parameter conversion), the stub hands exactly the bound values back as the
// row, and First/Find scans them into a fresh record (real convertAssign +
// Field.Set). Field values are symbolic.

type c03Kind struct {
	name string
	run  func(db *gorm.DB, s *Store) // creates, loads, asserts
}

// capture: first INSERT's column names and args; replay them as the row
func c03Stub(s *Store) {
	s.OnExec = func(text string, args []driver.Value) Result { return Result{LastID: 5, Affected: 1} }
	s.OnQuery = func(text string, args []driver.Value) RowSet {
		for _, e := range s.Log {
			if e.Kind == "EXEC" && hasPrefix(e.Text, "INSERT") {
				cols := insertCols(e.Text)
				row := append([]driver.Value{}, e.Args...)
				for _, c := range cols {
					if c == "id" || c == "a" {
						return RowSet{Cols: cols, Rows: [][]driver.Value{row}}
					}
				}
				return RowSet{Cols: append(cols, "id"), Rows: [][]driver.Value{append(row, int64(5))}}
			}
		}
		return RowSet{}
	}
}

// c03IsInt: v is the integer n, whatever integer type carries it.
func c03IsInt(v interface{}, n int) bool {
	x, null, ok := argInt(v)
	if _, isStr := v.(string); isStr || !ok || null {
		return false
	}
	return x == n
}

func c03Kinds() []c03Kind {
	ok := func(res *gorm.DB, label string) {
		if res.Error != nil {
			verifrt.Observe("error:"+label, res.Error)
		}
		verifrt.Assert(res.Error == nil, "C03.error:"+label)
	}
	return []c03Kind{
		{"bool", func(db *gorm.DB, s *Store) {
			in := KBool{V: verifrt.Bool("v")}
			ok(db.Create(&in), "create")
			var out KBool
			ok(db.First(&out), "first")
			verifrt.Assert(out.V == in.V && out.ID == 5 && in.ID == 5, "C03.value")
		}},
		{"int8", func(db *gorm.DB, s *Store) {
			in := KInt8{V: int8(verifrt.Int("v"))}
			ok(db.Create(&in), "create")
			var out KInt8
			ok(db.First(&out), "first")
			verifrt.Assert(out.V == in.V, "C03.value")
		}},
		{"int16", func(db *gorm.DB, s *Store) {
			in := KInt16{V: int16(verifrt.Int("v"))}
			ok(db.Create(&in), "create")
			var out KInt16
			ok(db.First(&out), "first")
			verifrt.Assert(out.V == in.V, "C03.value")
		}},
		{"int32", func(db *gorm.DB, s *Store) {
			in := KInt32{V: int32(verifrt.Int("v"))}
			ok(db.Create(&in), "create")
			var out KInt32
			ok(db.First(&out), "first")
			verifrt.Assert(out.V == in.V, "C03.value")
		}},
		{"int64", func(db *gorm.DB, s *Store) {
			in := KInt64{V: verifrt.Int64("v")}
			ok(db.Create(&in), "create")
			var out KInt64
			ok(db.First(&out), "first")
			verifrt.Assert(out.V == in.V, "C03.value")
		}},
		{"int", func(db *gorm.DB, s *Store) {
			in := KInt{V: verifrt.Int("v")}
			ok(db.Create(&in), "create")
			var out []KInt
			ok(db.Find(&out), "find")
			verifrt.Assert(len(out) == 1 && out[0].V == in.V, "C03.value")
		}},
		{"uint8", func(db *gorm.DB, s *Store) {
			in := KUint8{V: uint8(verifrt.Int("v"))}
			ok(db.Create(&in), "create")
			var out KUint8
			ok(db.First(&out), "first")
			verifrt.Assert(out.V == in.V, "C03.value")
		}},
		{"uint16", func(db *gorm.DB, s *Store) {
			in := KUint16{V: uint16(verifrt.Int("v"))}
			ok(db.Create(&in), "create")
			var out KUint16
			ok(db.First(&out), "first")
			verifrt.Assert(out.V == in.V, "C03.value")
		}},
		{"uint32", func(db *gorm.DB, s *Store) {
			in := KUint32{V: uint32(verifrt.Int("v"))}
			ok(db.Create(&in), "create")
			var out KUint32
			ok(db.First(&out), "first")
			verifrt.Assert(out.V == in.V, "C03.value")
		}},
		{"uint64", func(db *gorm.DB, s *Store) {
			v := verifrt.Uint64("v")
			verifrt.Assume(v < 1<<63) // representable as a driver value (database/sql rejects the high bit)
			in := KUint64{V: v}
			ok(db.Create(&in), "create")
			var out KUint64
			ok(db.First(&out), "first")
			verifrt.Assert(out.V == in.V, "C03.value")
		}},
		{"string", func(db *gorm.DB, s *Store) {
			in := KString{V: verifrt.Bytes("v", 2+2*verifrt.Tier())}
			ok(db.Create(&in), "create")
			var out KString
			ok(db.First(&out), "first")
			verifrt.Assert(out.V == in.V, "C03.value")
		}},
		{"bytes", func(db *gorm.DB, s *Store) {
			in := KBytes{V: []byte(verifrt.Bytes("v", 2+2*verifrt.Tier()))}
			ok(db.Create(&in), "create")
			var out KBytes
			ok(db.First(&out), "first")
			verifrt.Assert(string(out.V) == string(in.V), "C03.value")
		}},
		{"bytes-empty", func(db *gorm.DB, s *Store) {
			in := KBytes{V: []byte{}}
			ok(db.Create(&in), "create")
			var out KBytes
			ok(db.First(&out), "first")
			verifrt.Assert(out.V != nil && len(out.V) == 0, "C03.value")
			first, _ := firstStatement(s)
			verifrt.Assert(len(first.Args) == 1, "C03.empty-bytes-not-bound")
		}},
		{"ptr-int", func(db *gorm.DB, s *Store) {
			var in KPtrInt
			v := verifrt.Int("v")
			if verifrt.Bool("nonnil") {
				in.V = &v
			}
			ok(db.Create(&in), "create")
			var out KPtrInt
			ok(db.First(&out), "first")
			verifrt.Assert((out.V == nil) == (in.V == nil), "C03.null")
			if in.V != nil && out.V != nil {
				verifrt.Assert(*out.V == *in.V, "C03.value")
			}
		}},
		{"ptr-string", func(db *gorm.DB, s *Store) {
			var in KPtrString
			v := verifrt.Bytes("v", 1)
			if verifrt.Bool("nonnil") {
				in.V = &v
			}
			ok(db.Create(&in), "create")
			var out KPtrString
			ok(db.First(&out), "first")
			verifrt.Assert((out.V == nil) == (in.V == nil), "C03.null")
			if in.V != nil && out.V != nil {
				verifrt.Assert(*out.V == *in.V, "C03.value")
			}
		}},
		{"null-int", func(db *gorm.DB, s *Store) {
			in := KNullInt{V: sql.NullInt64{Int64: verifrt.Int64("v"), Valid: verifrt.Bool("valid")}}
			ok(db.Create(&in), "create")
			var out KNullInt
			ok(db.First(&out), "first")
			verifrt.Assert(out.V.Valid == in.V.Valid, "C03.null")
			if in.V.Valid {
				verifrt.Assert(out.V.Int64 == in.V.Int64, "C03.value")
			}
		}},
		{"null-string", func(db *gorm.DB, s *Store) {
			in := KNullString{V: sql.NullString{String: verifrt.Bytes("v", 2+2*verifrt.Tier()), Valid: verifrt.Bool("valid")}}
			ok(db.Create(&in), "create")
			var out KNullString
			ok(db.First(&out), "first")
			verifrt.Assert(out.V.Valid == in.V.Valid, "C03.null")
			if in.V.Valid {
				verifrt.Assert(out.V.String == in.V.String, "C03.value")
			}
		}},
		{"time", func(db *gorm.DB, s *Store) {
			in := KTime{V: time.Unix(int64(verifrt.Intn("sec", 0, 4000000000)), int64(verifrt.Intn("nsec", 0, 999999999))).UTC()}
			ok(db.Create(&in), "create")
			var out KTime
			ok(db.First(&out), "first")
			verifrt.Assert(out.V.Unix() == in.V.Unix() && out.V.Nanosecond() == in.V.Nanosecond(), "C03.value")
		}},
		{"unixtime-int64", func(db *gorm.DB, s *Store) {
			in := KUnixInt{V: int64(verifrt.Intn("sec", 1, 4000000000))}
			ok(db.Create(&in), "create")
			var out KUnixInt
			ok(db.First(&out), "first")
			verifrt.Assert(out.V == in.V, "C03.value")
		}},
		{"unixtime-uint", func(db *gorm.DB, s *Store) {
			in := KUnixUint{V: uint(verifrt.Intn("sec", 1, 4000000000))}
			ok(db.Create(&in), "create")
			var out KUnixUint
			ok(db.First(&out), "first")
			verifrt.Assert(out.V == in.V, "C03.value")
		}},
		{"unixtime-pointers", func(db *gorm.DB, s *Store) {
			// nil stays nil; a pointer to any second count, the epoch (0) included, comes back
			in := KUnixPtr{}
			if !verifrt.Bool("v_nil") {
				v := int64(verifrt.Intn("sec", 0, 4000000000))
				in.V = &v
			}
			if !verifrt.Bool("w_nil") {
				w := uint32(verifrt.Intn("sec2", 0, 4000000000))
				in.W = &w
			}
			ok(db.Create(&in), "create")
			var out KUnixPtr
			ok(db.First(&out), "first")
			verifrt.Assert((out.V == nil) == (in.V == nil), "C03.value:nil-ness")
			verifrt.Assert((out.W == nil) == (in.W == nil), "C03.value:nil-ness")
			if in.V != nil && out.V != nil {
				verifrt.Assert(*out.V == *in.V, "C03.value")
			}
			if in.W != nil && out.W != nil {
				verifrt.Assert(*out.W == *in.W, "C03.value")
			}
		}},
		{"renamed-column", func(db *gorm.DB, s *Store) {
			in := KRenamed{V: verifrt.Int("v")}
			ok(db.Create(&in), "create")
			var out KRenamed
			ok(db.First(&out), "first")
			verifrt.Assert(out.V == in.V, "C03.value")
			m := map[string]interface{}{}
			ok(db.Model(&KRenamed{}).First(&m), "first-map")
			verifrt.Assert(verifrt.SameValue(m["other_name"], in.V), "C03.map-value")
		}},
		{"column-named-like-another-field", func(db *gorm.DB, s *Store) {
			in := KCrossNamed{Title: verifrt.Bytes("t", 1), Name: verifrt.Bytes("n", 1)}
			ok(db.Create(&in), "create")
			var out KCrossNamed
			ok(db.First(&out), "first")
			verifrt.Assert(out.Title == in.Title && out.Name == in.Name, "C03.value")
			// and from a map keyed by column names
			ok(db.Model(&KCrossNamed{}).Create(map[string]interface{}{"Name": "tt", "Label": "nn"}), "create-map")
			for _, e := range s.Log {
				if e.Kind == "EXEC" && hasPrefix(e.Text, "INSERT") && len(e.Args) == 2 && verifrt.SameValue(e.Args[0], "nn") {
					verifrt.Assert(indexStr(e.Text, "(`Label`,`Name`)") >= 0, "C03.map-column-misassigned")
				}
			}
		}},
		{"custom-scanner-valuer", func(db *gorm.DB, s *Store) {
			in := KCustom{V: TextInt{N: verifrt.Intn("v", 0, 1000000)}}
			ok(db.Create(&in), "create")
			var out KCustom
			ok(db.First(&out), "first")
			verifrt.Assert(out.V.N == in.V.N, "C03.value")
		}},
		{"slice-of-records", func(db *gorm.DB, s *Store) {
			in := []KInt{{V: verifrt.Int("v1")}, {V: verifrt.Int("v2")}}
			prev := s.OnQuery
			s.OnQuery = func(text string, args []driver.Value) RowSet {
				if hasPrefix(text, "INSERT") {
					return prev(text, args)
				}
				for _, e := range s.Log {
					if e.Kind == "EXEC" && hasPrefix(e.Text, "INSERT") {
						return RowSet{Cols: []string{"id", "v"}, Rows: [][]driver.Value{{int64(5), e.Args[0]}, {int64(6), e.Args[1]}}}
					}
				}
				return RowSet{}
			}
			ok(db.Create(&in), "create")
			verifrt.Observe("keys", []uint{in[0].ID, in[1].ID})
			verifrt.Observe("log", s.Kinds())
			verifrt.Assert(in[0].ID == 5 && in[1].ID == 6, "C03.keys")
			var out []KInt
			ok(db.Find(&out), "find")
			verifrt.Assert(len(out) == 2 && out[0].V == in[0].V && out[1].V == in[1].V, "C03.value")
			var ms []map[string]interface{}
			ok(db.Model(&KInt{}).Find(&ms), "find-maps")
			verifrt.Assert(len(ms) == 2 && verifrt.SameValue(ms[1]["v"], in[1].V), "C03.map-value")
		}},
		{"self-serializer-rows", func(db *gorm.DB, s *Store) {
			a, b := verifrt.Bytes("a", 1), verifrt.Bytes("b", 1)
			verifrt.Assume(verifrt.And(a[0] != ',', b[0] != ','))
			in := []KSelf{{V: CSV{Items: []string{a, "x"}}}, {V: CSV{Items: []string{b, "y"}}}}
			prev := s.OnQuery
			s.OnQuery = func(text string, args []driver.Value) RowSet {
				if hasPrefix(text, "INSERT") {
					return prev(text, args)
				}
				for _, e := range s.Log {
					if e.Kind == "EXEC" && hasPrefix(e.Text, "INSERT") {
						return RowSet{Cols: []string{"id", "v"}, Rows: [][]driver.Value{{int64(5), e.Args[0]}, {int64(6), e.Args[1]}}}
					}
				}
				return RowSet{}
			}
			ok(db.Create(&in), "create")
			var out []KSelf
			ok(db.Find(&out), "find")
			verifrt.Assert(len(out) == 2, "C03.rows")
			verifrt.Assert(len(out[0].V.Items) == 2 && out[0].V.Items[0] == a && out[0].V.Items[1] == "x", "C03.value")
			verifrt.Assert(len(out[1].V.Items) == 2 && out[1].V.Items[0] == b && out[1].V.Items[1] == "y", "C03.value")
			// a later load must not disturb records loaded earlier
			var one KSelf
			ok(db.First(&one), "first")
			verifrt.Assert(out[1].V.Items[0] == b && out[0].V.Items[0] == a, "C03.earlier-record-changed")
		}},
		{"embedded", func(db *gorm.DB, s *Store) {
			in := KEmbedded{Addr: Addr{City: verifrt.Bytes("c1", 1), Zip: verifrt.Int("z1")},
				Work: Addr{City: verifrt.Bytes("c2", 1), Zip: verifrt.Int("z2")},
				Home: &Addr{City: verifrt.Bytes("c3", 1), Zip: verifrt.Int("z3")}}
			ok(db.Create(&in), "create")
			var out KEmbedded
			ok(db.First(&out), "first")
			verifrt.Assert(out.Addr == in.Addr, "C03.value:embedded-anonymous")
			verifrt.Assert(out.Work == in.Work, "C03.value:embedded-named")
			verifrt.Assert(out.Home != nil && *out.Home == *in.Home, "C03.value:embedded-pointer")
			m := map[string]interface{}{}
			ok(db.Model(&KEmbedded{}).First(&m), "first-map")
			verifrt.Assert(verifrt.SameValue(m["work_zip"], in.Work.Zip), "C03.map-value")
			verifrt.Assert(verifrt.SameValue(m["addr_zip"], in.Addr.Zip), "C03.map-value")
			verifrt.Assert(verifrt.SameValue(m["home_zip"], in.Home.Zip), "C03.map-value")
			verifrt.Assert(len(m) == 7, "C03.map-columns")
		}},
		{"embedded-twice-renamed", func(db *gorm.DB, s *Store) {
			in := KEmbeddedTwice{Home: Place{Town: verifrt.Bytes("t1", 1), Code: verifrt.Int("c1")},
				Work: Place{Town: verifrt.Bytes("t2", 1), Code: verifrt.Int("c2")}}
			ok(db.Create(&in), "create")
			var out KEmbeddedTwice
			ok(db.First(&out), "first")
			verifrt.Assert(out.Home == in.Home, "C03.value:embedded-home")
			verifrt.Assert(out.Work == in.Work, "C03.value:embedded-work")
			m := map[string]interface{}{}
			ok(db.Model(&KEmbeddedTwice{}).First(&m), "first-map")
			verifrt.Assert(len(m) == 5, "C03.map-columns")
		}},
		{"default-tags", func(db *gorm.DB, s *Store) {
			zero := verifrt.Bool("zero")
			in := KDefault{}
			if !zero {
				in = KDefault{Rank: verifrt.Int("rank"), Label: verifrt.Bytes("label", 1), On: true}
				verifrt.Assume(in.Rank != 0)
			}
			ok(db.Create(&in), "create")
			if zero {
				verifrt.Assert(in.Rank == 7 && in.Label == "none" && in.On, "C03.default-not-on-record")
			}
			var out KDefault
			ok(db.First(&out), "first")
			verifrt.Assert(out.Rank == in.Rank && out.Label == in.Label && out.On == in.On, "C03.value")
		}},
		{"composite-key", func(db *gorm.DB, s *Store) {
			in := KComposite{A: uint(verifrt.Intn("a", 1, 1000000)), B: verifrt.Bytes("b", 1), V: verifrt.Int("v")}
			a, b := in.A, in.B
			ok(db.Create(&in), "create")
			verifrt.Assert(in.A == a && in.B == b, "C03.caller-key-changed")
			var out KComposite
			ok(db.First(&out), "first")
			verifrt.Assert(out == in, "C03.value")
		}},
		{"auto-time", func(db *gorm.DB, s *Store) {
			now := time.Unix(int64(verifrt.Intn("sec", 0, 4000000000)), int64(verifrt.Intn("nsec", 0, 999999999))).UTC()
			db.Config.NowFunc = func() time.Time { return now }
			in := KAutoTime{V: verifrt.Int("v")}
			ok(db.Create(&in), "create")
			verifrt.Assert(in.CreatedAt.Equal(now), "C03.auto-time-not-on-record:created_at")
			verifrt.Assert(in.UpdatedAt == now.Unix(), "C03.auto-time-not-on-record:updated_at")
			verifrt.Assert(in.Made == now.UnixMilli(), "C03.auto-time-not-on-record:milli")
			verifrt.Assert(in.Nano == now.UnixNano(), "C03.auto-time-not-on-record:nano")
			var out KAutoTime
			ok(db.First(&out), "first")
			verifrt.Assert(out.CreatedAt.Equal(in.CreatedAt) && out.UpdatedAt == in.UpdatedAt, "C03.value")
			verifrt.Assert(out.Made == in.Made && out.Nano == in.Nano && out.V == in.V, "C03.value")
		}},
		{"float", func(db *gorm.DB, s *Store) {
			vals := []float64{0, 1.5, -2.25, 1e300, 3.0e-5}
			k := verifrt.Concretize(verifrt.Intn("k", 0, len(vals)-1), 0, len(vals)-1)
			in := KFloat{V: vals[k], W: float32(vals[(k+1)%3])}
			ok(db.Create(&in), "create")
			var out KFloat
			ok(db.First(&out), "first")
			verifrt.Assert(out.V == in.V && out.W == in.W, "C03.value")
		}},
		{"create-from-map", func(db *gorm.DB, s *Store) {
			v := verifrt.Int("v")
			ok(db.Model(&KInt{}).Create(map[string]interface{}{"v": v}), "create")
			var out KInt
			ok(db.First(&out), "first")
			verifrt.Assert(out.V == v, "C03.value")
		}},
		{"create-from-map-slice", func(db *gorm.DB, s *Store) {
			// a slice of maps: one row per map, in slice order, columns by name
			v1, v2 := verifrt.Int("v1"), verifrt.Int("v2")
			prev := s.OnQuery
			s.OnQuery = func(text string, args []driver.Value) RowSet {
				if hasPrefix(text, "INSERT") {
					return prev(text, args)
				}
				for _, e := range s.Log {
					if e.Kind == "EXEC" && hasPrefix(e.Text, "INSERT") {
						cols := insertCols(e.Text)
						rs := RowSet{Cols: append([]string{"id"}, cols...)}
						per := len(cols)
						for r := 0; per > 0 && (r+1)*per <= len(e.Args); r++ {
							rs.Rows = append(rs.Rows, append([]driver.Value{int64(5 + r)}, e.Args[r*per:(r+1)*per]...))
						}
						return rs
					}
				}
				return RowSet{}
			}
			in := []map[string]interface{}{{"V": v1, "w": 7}, {"w": 8, "V": v2}}
			if verifrt.Concretize(verifrt.Intn("by_pointer", 0, 1), 0, 1) == 1 {
				ok(db.Model(&KPair{}).Create(&in), "create")
			} else {
				ok(db.Model(&KPair{}).Create(in), "create")
			}
			// every in-memory record carries the key of the row that stores it, in slice order
			verifrt.Observe("maps", len(in))
			verifrt.Observe("id0", in[0]["id"])
			verifrt.Observe("id1", in[1]["id"])
			verifrt.Assert(len(in) == 2, "C03.map-slice-length")
			verifrt.Assert(c03IsInt(in[0]["id"], 5) && c03IsInt(in[1]["id"], 6), "C03.map-keys")
			var out []KPair
			ok(db.Find(&out), "find")
			verifrt.Observe("n", len(out))
			verifrt.Assert(len(out) == 2, "C03.rows")
			verifrt.Assert(out[0].V == v1 && out[0].W == 7 && out[1].V == v2 && out[1].W == 8, "C03.value")
			var ms []map[string]interface{}
			ok(db.Model(&KPair{}).Find(&ms), "find-maps")
			verifrt.Assert(len(ms) == 2 && c03IsInt(ms[0]["v"], v1) && c03IsInt(ms[1]["w"], 8), "C03.map-value")
		}},
	}
}

// ---- database-generated defaults and keys come back through RETURNING, in slice order

func N_C03_Returning(tier int) int { return 18 }

func H_C03_Returning(shape int) {
	n := 1 + shape%3
	pointers := (shape/3)%2 == 1
	mode := shape / 6 // 0 plain, 1 upsert (ON CONFLICT UPDATE ALL), 2 CreateInBatches of 2
	s := NewStore()
	// the database generates key and code for every row; the generated values are symbolic
	ids := []int64{int64(verifrt.Intn("id1", 1, 1000)), int64(verifrt.Intn("id2", 1, 1000)), int64(verifrt.Intn("id3", 1, 1000))}
	codes := []string{verifrt.Bytes("code1", 1), verifrt.Bytes("code2", 1), verifrt.Bytes("code3", 1)}
	next := 0
	s.OnQuery = func(text string, args []driver.Value) RowSet {
		rs := RowSet{}
		if hasPrefix(text, "INSERT") {
			cols, _ := between(text, " RETURNING ", "")
			rs.Cols = quotedNames(cols)
			tuples := 1 + countSub(text, "),(")
			from := next
			next += tuples
			for i := from; i < from+tuples && i < n; i++ {
				var row []driver.Value
				for _, c := range rs.Cols {
					switch c {
					case "id":
						row = append(row, ids[i])
					case "code":
						row = append(row, codes[i])
					case "rank":
						row = append(row, int64(7))
					default:
						row = append(row, nil)
					}
				}
				rs.Rows = append(rs.Rows, row)
			}
		}
		return rs
	}
	db := openReal(stubDialector{returning: true}, s, nil)
	recs := make([]Ticket, n)
	for i := range recs {
		recs[i].Title = "t"
	}
	// one record may carry an explicit rank (then no default applies to it)
	explicit := verifrt.Concretize(verifrt.Intn("explicit_rank_at", -1, n-1), -1, n-1)
	if explicit >= 0 {
		recs[explicit].Rank = 3
	}
	var res *gorm.DB
	tx := db
	if mode == 1 {
		tx = db.Clauses(clause.OnConflict{UpdateAll: true})
	}
	if pointers {
		ps := make([]*Ticket, n)
		for i := range recs {
			ps[i] = &recs[i]
		}
		if mode == 2 {
			res = tx.CreateInBatches(&ps, 2)
		} else {
			res = tx.Create(&ps)
		}
	} else if mode == 2 {
		res = tx.CreateInBatches(&recs, 2)
	} else if n == 1 {
		res = tx.Create(&recs[0])
	} else {
		res = tx.Create(&recs)
	}
	verifrt.Reach("created")
	verifrt.Observe("log", s.Kinds())
	verifrt.Assert(res.Error == nil, "C03.error")
	verifrt.Assert(res.RowsAffected == int64(n), "C03.rows-affected")
	for i := range recs {
		verifrt.Assert(int64(recs[i].ID) == ids[i], "C03.returning-key-order")
		verifrt.Assert(recs[i].Code == codes[i], "C03.returning-default-order")
		if i == explicit {
			verifrt.Assert(recs[i].Rank == 3, "C03.explicit-value-overwritten")
		}
	}
}

func N_C03_RoundTrip(tier int) int { return 2 * len(c03Kinds()) }

func H_C03_RoundTrip(shape int) {
	ks := c03Kinds()
	k := ks[shape%len(ks)]
	returning := shape >= len(ks)
	verifrt.Tag(k.name)
	s := NewStore()
	c03Stub(s)
	if returning {
		// RETURNING path: the INSERT is a query that returns the generated key
		q := s.OnQuery
		s.OnQuery = func(text string, args []driver.Value) RowSet {
			if hasPrefix(text, "INSERT") {
				// record the statement like an EXEC for the load stub
				s.Log = append(s.Log, Event{Kind: "EXEC", Text: text, Args: args})
				n := countByte(text, '(') - 1
				rs := RowSet{Cols: []string{"id"}}
				for i := 0; i < n && i < 2; i++ {
					rs.Rows = append(rs.Rows, []driver.Value{int64(5 + i)})
				}
				return rs
			}
			return q(text, args)
		}
	}
	db := openReal(stubDialector{returning: returning}, s, nil)
	k.run(db, s)
	verifrt.Reach("done")
}

// ---- primary key back-fill from LastInsertId

type c03BF struct {
	n        int
	reversed bool
	pointers bool
	inc3     bool
}

func c03BFShapes() []c03BF {
	var r []c03BF
	for n := 1; n <= 3; n++ {
		for m := 0; m < 8; m++ {
			r = append(r, c03BF{n: n, reversed: m&1 != 0, pointers: m&2 != 0, inc3: m&4 != 0})
		}
	}
	return r
}

func N_C03_Backfill(tier int) int { return len(c03BFShapes()) }

func H_C03_Backfill(shape int) {
	sh := c03BFShapes()[shape]
	s := NewStore()
	a := int64(verifrt.Intn("last_insert_id", 20, 1000))
	affectedZero := verifrt.Bool("zero_rows_affected")
	idErr := verifrt.Bool("last_insert_id_error")
	s.OnExec = func(text string, args []driver.Value) Result {
		r := Result{LastID: a, Affected: int64(sh.n)}
		if affectedZero {
			r.Affected = 0
		}
		if idErr {
			r.IDErr = errInjected
		}
		return r
	}
	db := openReal(stubDialector{reversed: sh.reversed}, s, nil)
	inc := int64(1)
	if sh.inc3 {
		inc = 3
	}
	preset := make([]bool, sh.n)
	nauto := 0
	for i := range preset {
		preset[i] = verifrt.Bool("preset")
		if !preset[i] {
			nauto++
		}
	}
	// stub contract: the rows without an explicit key get consecutive keys in
	// VALUES order; the driver reports the first (forward) or the last (reversed)
	first := a
	if sh.reversed {
		first = a - int64(nauto-1)*inc
	}
	ids := make([]uint, sh.n)
	var res *gorm.DB
	if sh.inc3 {
		recs := make([]Seq3, sh.n)
		for i := range recs {
			if preset[i] {
				recs[i].ID = uint(5 + i)
			}
		}
		if sh.pointers {
			ps := make([]*Seq3, sh.n)
			for i := range recs {
				ps[i] = &recs[i]
			}
			res = db.Create(&ps)
		} else if sh.n == 1 {
			res = db.Create(&recs[0])
		} else {
			res = db.Create(&recs)
		}
		for i := range recs {
			ids[i] = recs[i].ID
		}
	} else {
		recs := make([]Item, sh.n)
		for i := range recs {
			if preset[i] {
				recs[i].ID = uint(5 + i)
			}
		}
		if sh.pointers {
			ps := make([]*Item, sh.n)
			for i := range recs {
				ps[i] = &recs[i]
			}
			res = db.Create(&ps)
		} else if sh.n == 1 {
			res = db.Create(&recs[0])
		} else {
			res = db.Create(&recs)
		}
		for i := range recs {
			ids[i] = recs[i].ID
		}
	}
	verifrt.Reach("created")
	verifrt.Observe("ids", ids)
	if idErr && !affectedZero && !(nauto == 0 && false) {
		verifrt.Assert(res.Error != nil, "C03.last-insert-id-error-swallowed")
	} else {
		verifrt.Assert(res.Error == nil, "C03.error")
	}
	k := 0
	for i := range ids {
		if preset[i] {
			verifrt.Assert(ids[i] == uint(5+i), "C03.preset-key-changed")
			continue
		}
		if affectedZero || idErr || nauto == 0 {
			verifrt.Assert(ids[i] == 0, "C03.backfill-without-insert")
		} else {
			verifrt.Assert(int64(ids[i]) == first+int64(k)*inc, "C03.backfill-key")
		}
		k++
	}
}

//go:build verifsym

package verifh

import (
	"context"
	"database/sql"
	"database/sql/driver"
	"errors"
	"io"
	"reflect"

	"gorm.io/gorm/internal/verifrt"
)

// Symbolic back end of the database/sql boundary. The engine redirects every
// method of *sql.DB/*sql.Tx/*sql.Stmt/*sql.Rows/*sql.Row/*sql.ColumnType that
// gorm calls to the Sym_<Type>_<Method> function of this file; the handles are
// zero values used only for their identity.

type txRef struct {
	s     *Store
	tx    *txState
	stmts []*stmtRef // statements prepared on the transaction: database/sql closes them when it ends
}

func (r *txRef) closeStmts() {
	for _, st := range r.stmts {
		if !st.closed {
			st.closed = true
			r.s.CloseStmt(st.text)
		}
	}
	r.stmts = nil
}

type stmtRef struct {
	s      *Store
	tx     *txState
	text   string
	closed bool
	view   bool // a Tx.StmtContext view: closing it closes nothing at driver level
}
type rowsRef struct {
	s      *Store
	set    RowSet
	pos    int
	closed bool
	err    error
}

var (
	pools  = map[*sql.DB]*Store{}
	txOf   = map[*sql.Tx]*txRef{}
	stmtOf = map[*sql.Stmt]*stmtRef{}
	rowsOf = map[*sql.Rows]*rowsRef{}
	rowOf  = map[*sql.Row]*rowsRef{}
)

// OpenPool returns a connection pool over the store.
func OpenPool(s *Store) *sql.DB {
	db := &sql.DB{}
	pools[db] = s
	return db
}

// PoolInUse: connections checked out (symbolically: open transactions + open rows).
func PoolInUse(db *sql.DB) int { return pools[db].OpenTx() + pools[db].OpenRows }

func normArgs(args []interface{}) ([]driver.Value, error) {
	out := make([]driver.Value, len(args))
	for i, a := range args {
		if na, ok := a.(sql.NamedArg); ok {
			a = na.Value
		}
		v, err := driver.DefaultParameterConverter.ConvertValue(a)
		if err != nil {
			return nil, err
		}
		out[i] = v
	}
	return out, nil
}

func newRows(s *Store, set RowSet) *sql.Rows {
	r := &sql.Rows{}
	rowsOf[r] = &rowsRef{s: s, set: set, pos: -1}
	return r
}

func execOn(s *Store, tx *txState, ctx context.Context, query string, args []interface{}) (sql.Result, error) {
	vals, err := normArgs(args)
	if err != nil {
		return nil, err
	}
	s.pausePoint()
	res, err := s.Exec(tx, ctxTag(ctx), query, vals)
	if err != nil {
		return nil, err
	}
	return res, nil
}

func queryOn(s *Store, tx *txState, ctx context.Context, query string, args []interface{}) (*sql.Rows, error) {
	vals, err := normArgs(args)
	if err != nil {
		return nil, err
	}
	s.pausePoint()
	set, err := s.Query(tx, ctxTag(ctx), query, vals)
	if err != nil {
		return nil, err
	}
	return newRows(s, set), nil
}

func rowOn(s *Store, tx *txState, ctx context.Context, query string, args []interface{}) *sql.Row {
	r := &sql.Row{}
	vals, err := normArgs(args)
	if err != nil {
		rowOf[r] = &rowsRef{s: s, err: err}
		return r
	}
	s.pausePoint()
	set, err := s.Query(tx, ctxTag(ctx), query, vals)
	rowOf[r] = &rowsRef{s: s, set: set, pos: -1, err: err}
	return r
}

// ---- *sql.DB

func Sym_DB_BeginTx(db *sql.DB, ctx context.Context, opts *sql.TxOptions) (*sql.Tx, error) {
	s := pools[db]
	s.pausePoint()
	st, err := s.Begin(ctxTag(ctx))
	if err != nil {
		return nil, err
	}
	tx := &sql.Tx{}
	txOf[tx] = &txRef{s: s, tx: st}
	return tx, nil
}
func Sym_DB_ExecContext(db *sql.DB, ctx context.Context, query string, args ...interface{}) (sql.Result, error) {
	return execOn(pools[db], nil, ctx, query, args)
}
func Sym_DB_QueryContext(db *sql.DB, ctx context.Context, query string, args ...interface{}) (*sql.Rows, error) {
	return queryOn(pools[db], nil, ctx, query, args)
}
func Sym_DB_QueryRowContext(db *sql.DB, ctx context.Context, query string, args ...interface{}) *sql.Row {
	return rowOn(pools[db], nil, ctx, query, args)
}
func Sym_DB_PrepareContext(db *sql.DB, ctx context.Context, query string) (*sql.Stmt, error) {
	s := pools[db]
	if err := s.Prepare(nil, ctxTag(ctx), query); err != nil {
		return nil, err
	}
	st := &sql.Stmt{}
	stmtOf[st] = &stmtRef{s: s, text: query}
	return st, nil
}
func Sym_DB_Close(db *sql.DB) error                            { return nil }
func Sym_DB_Ping(db *sql.DB) error                             { return nil }
func Sym_DB_PingContext(db *sql.DB, ctx context.Context) error { return nil }

// ---- *sql.Tx

func Sym_Tx_ExecContext(tx *sql.Tx, ctx context.Context, query string, args ...interface{}) (sql.Result, error) {
	r := txOf[tx]
	return execOn(r.s, r.tx, ctx, query, args)
}
func Sym_Tx_QueryContext(tx *sql.Tx, ctx context.Context, query string, args ...interface{}) (*sql.Rows, error) {
	r := txOf[tx]
	return queryOn(r.s, r.tx, ctx, query, args)
}
func Sym_Tx_QueryRowContext(tx *sql.Tx, ctx context.Context, query string, args ...interface{}) *sql.Row {
	r := txOf[tx]
	return rowOn(r.s, r.tx, ctx, query, args)
}
func Sym_Tx_PrepareContext(tx *sql.Tx, ctx context.Context, query string) (*sql.Stmt, error) {
	r := txOf[tx]
	if r.tx.done {
		return nil, errTxDone
	}
	if err := r.s.Prepare(r.tx, ctxTag(ctx), query); err != nil {
		return nil, err
	}
	st := &sql.Stmt{}
	ref := &stmtRef{s: r.s, tx: r.tx, text: query}
	stmtOf[st] = ref
	r.stmts = append(r.stmts, ref)
	return st, nil
}
func Sym_Tx_StmtContext(tx *sql.Tx, ctx context.Context, stmt *sql.Stmt) *sql.Stmt {
	r := txOf[tx]
	o := stmtOf[stmt]
	st := &sql.Stmt{}
	if o.closed || o.tx != nil {
		// database/sql: a statement that is closed or belongs to a transaction is
		// re-prepared on this transaction's connection
		ref := &stmtRef{s: r.s, tx: r.tx, text: o.text}
		if err := r.s.Prepare(r.tx, ctxTag(ctx), o.text); err != nil {
			ref.closed = true
		} else {
			r.stmts = append(r.stmts, ref)
		}
		stmtOf[st] = ref
		return st
	}
	// a transaction-specific view of a pool-level prepared statement
	stmtOf[st] = &stmtRef{s: r.s, tx: r.tx, text: o.text, view: true}
	return st
}
func Sym_Tx_Commit(tx *sql.Tx) error {
	r := txOf[tx]
	r.s.pausePoint()
	err := r.s.Commit(r.tx)
	if err != errTxDone {
		r.closeStmts()
	}
	return err
}
func Sym_Tx_Rollback(tx *sql.Tx) error {
	r := txOf[tx]
	err := r.s.Rollback(r.tx)
	if err != errTxDone {
		r.closeStmts()
	}
	return err
}

// ---- *sql.Stmt

var errStmtClosed = errors.New("sql: statement is closed")

func Sym_Stmt_ExecContext(st *sql.Stmt, ctx context.Context, args ...interface{}) (sql.Result, error) {
	r := stmtOf[st]
	if r.closed {
		return nil, errStmtClosed
	}
	return execOn(r.s, r.tx, ctx, r.text, args)
}
func Sym_Stmt_QueryContext(st *sql.Stmt, ctx context.Context, args ...interface{}) (*sql.Rows, error) {
	r := stmtOf[st]
	if r.closed {
		return nil, errStmtClosed
	}
	return queryOn(r.s, r.tx, ctx, r.text, args)
}
func Sym_Stmt_QueryRowContext(st *sql.Stmt, ctx context.Context, args ...interface{}) *sql.Row {
	r := stmtOf[st]
	if r.closed {
		row := &sql.Row{}
		rowOf[row] = &rowsRef{s: r.s, err: errStmtClosed}
		return row
	}
	return rowOn(r.s, r.tx, ctx, r.text, args)
}
func Sym_Stmt_Close(st *sql.Stmt) error {
	r := stmtOf[st]
	if r.closed {
		return nil
	}
	r.closed = true
	if !r.view {
		r.s.CloseStmt(r.text)
	}
	return nil
}

// ---- *sql.Rows

func Sym_Rows_Columns(rs *sql.Rows) ([]string, error) {
	r := rowsOf[rs]
	if r.closed {
		return nil, errors.New("sql: Rows are closed")
	}
	return append([]string{}, r.set.Cols...), nil
}
func Sym_Rows_ColumnTypes(rs *sql.Rows) ([]*sql.ColumnType, error) {
	r := rowsOf[rs]
	if r.closed {
		return nil, errors.New("sql: Rows are closed")
	}
	out := make([]*sql.ColumnType, len(r.set.Cols))
	for i := range out {
		out[i] = &sql.ColumnType{}
	}
	return out, nil
}
func Sym_ColumnType_ScanType(ct *sql.ColumnType) reflect.Type {
	return reflect.TypeOf(new(interface{})).Elem()
}
func Sym_ColumnType_DatabaseTypeName(ct *sql.ColumnType) string { return "" }
func Sym_Rows_Next(rs *sql.Rows) bool {
	r := rowsOf[rs]
	if r.closed {
		return false
	}
	r.pos++
	if r.set.BreakAfter < 0 || (r.set.BreakAfter > 0 && r.pos >= r.set.BreakAfter) {
		r.err = errRowsBroken
		Sym_Rows_Close(rs)
		return false
	}
	if r.pos >= len(r.set.Rows) {
		Sym_Rows_Close(rs)
		return false
	}
	return true
}
func Sym_Rows_NextResultSet(rs *sql.Rows) bool { return false }
func Sym_Rows_Err(rs *sql.Rows) error          { return rowsOf[rs].err }
func Sym_Rows_Close(rs *sql.Rows) error {
	r := rowsOf[rs]
	if !r.closed {
		r.closed = true
		r.s.CloseRows()
	}
	return nil
}
func Sym_Rows_Scan(rs *sql.Rows, dest ...interface{}) error {
	r := rowsOf[rs]
	if r.closed {
		return errors.New("sql: Rows are closed")
	}
	if r.pos < 0 || r.pos >= len(r.set.Rows) {
		return errors.New("sql: Scan called without calling Next")
	}
	return scanRow(r.set.Rows[r.pos], dest)
}

func scanRow(row []driver.Value, dest []interface{}) error {
	if len(dest) != len(row) {
		return errors.New("sql: expected a different number of destination arguments in Scan")
	}
	for i := range row {
		if err := verifrt.ConvertAssign(dest[i], row[i]); err != nil {
			return err
		}
	}
	return nil
}

// ---- *sql.Row

func Sym_Row_Err(row *sql.Row) error { return rowOf[row].err }
func Sym_Row_Scan(row *sql.Row, dest ...interface{}) error {
	r := rowOf[row]
	if r.err != nil {
		return r.err
	}
	defer func() {
		if !r.closed {
			r.closed = true
			r.s.CloseRows()
		}
	}()
	if len(r.set.Rows) == 0 {
		return sql.ErrNoRows
	}
	return scanRow(r.set.Rows[0], dest)
}

var _ = io.EOF

// the summaries of *sql.DB/*sql.Stmt stand for database/sql's whole retry loop
const sqlBadConnRetries = 0

func lockStore()   {}
func unlockStore() {}

// ---- the variants without a context argument: database/sql runs them with context.Background()

func Sym_DB_Exec(db *sql.DB, query string, args ...interface{}) (sql.Result, error) {
	return Sym_DB_ExecContext(db, context.Background(), query, args...)
}
func Sym_DB_Query(db *sql.DB, query string, args ...interface{}) (*sql.Rows, error) {
	return Sym_DB_QueryContext(db, context.Background(), query, args...)
}
func Sym_DB_QueryRow(db *sql.DB, query string, args ...interface{}) *sql.Row {
	return Sym_DB_QueryRowContext(db, context.Background(), query, args...)
}
func Sym_DB_Prepare(db *sql.DB, query string) (*sql.Stmt, error) {
	return Sym_DB_PrepareContext(db, context.Background(), query)
}
func Sym_DB_Begin(db *sql.DB) (*sql.Tx, error) { return Sym_DB_BeginTx(db, context.Background(), nil) }
func Sym_Tx_Exec(tx *sql.Tx, query string, args ...interface{}) (sql.Result, error) {
	return Sym_Tx_ExecContext(tx, context.Background(), query, args...)
}
func Sym_Tx_Query(tx *sql.Tx, query string, args ...interface{}) (*sql.Rows, error) {
	return Sym_Tx_QueryContext(tx, context.Background(), query, args...)
}
func Sym_Tx_QueryRow(tx *sql.Tx, query string, args ...interface{}) *sql.Row {
	return Sym_Tx_QueryRowContext(tx, context.Background(), query, args...)
}
func Sym_Tx_Prepare(tx *sql.Tx, query string) (*sql.Stmt, error) {
	return Sym_Tx_PrepareContext(tx, context.Background(), query)
}
func Sym_Tx_Stmt(tx *sql.Tx, stmt *sql.Stmt) *sql.Stmt {
	return Sym_Tx_StmtContext(tx, context.Background(), stmt)
}
func Sym_Stmt_Exec(st *sql.Stmt, args ...interface{}) (sql.Result, error) {
	return Sym_Stmt_ExecContext(st, context.Background(), args...)
}
func Sym_Stmt_Query(st *sql.Stmt, args ...interface{}) (*sql.Rows, error) {
	return Sym_Stmt_QueryContext(st, context.Background(), args...)
}
func Sym_Stmt_QueryRow(st *sql.Stmt, args ...interface{}) *sql.Row {
	return Sym_Stmt_QueryRowContext(st, context.Background(), args...)
}

package verifh

import (
	"database/sql/driver"

	"gorm.io/gorm/internal/verifrt"
)

// Development smoke harnesses (property id DEV, not registered).
func H_DEV_Create(shape int) {
	db := openDry(stubDialector{})
	it := Item{Name: "n", Age: verifrt.Int("age"), Score: verifrt.Int64("score")}
	stmt := db.Create(&it).Statement
	verifrt.Observe("sql", stmt.SQL.String())
	verifrt.Observe("vars", stmt.Vars)
	verifrt.Assert(db.Error == nil, "noerr")
}

func H_DEV_Update(shape int) {
	db := openDry(stubDialector{})
	it := Item{ID: 7}
	stmt := db.Model(&it).Updates(Item{Name: "x", Age: verifrt.Int("age")}).Statement
	verifrt.Observe("sql", stmt.SQL.String())
	verifrt.Observe("vars", stmt.Vars)
}

func H_DEV_Delete(shape int) {
	db := openDry(stubDialector{})
	stmt := db.Where("rank > ?", verifrt.Int("r")).Delete(&Doc{}).Statement
	verifrt.Observe("sql", stmt.SQL.String())
	verifrt.Observe("vars", stmt.Vars)
}

func H_DEV_First(shape int) {
	db := openDry(stubDialector{})
	var d Doc
	stmt := db.Where("rank > ?", verifrt.Int("r")).First(&d).Statement
	verifrt.Observe("sql", stmt.SQL.String())
	var p Post
	stmt = db.Order("views").Limit(3).Find(&p, verifrt.Int("id")).Statement
	verifrt.Observe("sql2", stmt.SQL.String())
	verifrt.Observe("vars2", stmt.Vars)
}

func H_DEV_CreatePost(shape int) {
	db := openDry(stubDialector{})
	p := []Post{{Title: "a", Views: verifrt.Int("v")}, {Title: "b"}}
	stmt := db.Create(&p).Statement
	verifrt.Observe("sql", stmt.SQL.String())
	verifrt.Observe("nvars", len(stmt.Vars))
}

func H_DEV_RealCreate(shape int) {
	s := NewStore()
	db := openReal(stubDialector{}, s, nil)
	s.FaultAt = verifrt.Intn("fault", 0, 4)
	it := Item{Name: "n", Age: verifrt.Int("age")}
	res := db.Create(&it)
	verifrt.Observe("err", res.Error)
	verifrt.Observe("log", s.Kinds())
	verifrt.Observe("durable", len(s.Durable))
	verifrt.Observe("id", it.ID)
	verifrt.Assert(s.OpenTx() == 0, "tx finished")
}

func H_DEV_RealFind(shape int) {
	s := NewStore()
	db := openReal(stubDialector{}, s, nil)
	n := verifrt.Intn("n", 0, 2)
	s.OnQuery = func(text string, args []driver.Value) RowSet {
		rs := RowSet{Cols: []string{"id", "name", "age"}}
		for i := 0; i < n; i++ {
			rs.Rows = append(rs.Rows, []driver.Value{int64(i + 1), "nm", int64(30 + i)})
		}
		return rs
	}
	var items []Item
	res := db.Where("age > ?", verifrt.Int("a")).Find(&items)
	verifrt.Observe("err", res.Error)
	verifrt.Observe("log", s.Kinds())
	verifrt.Observe("items", items)
	verifrt.Observe("affected", res.RowsAffected)
	var one Item
	res = db.First(&one)
	verifrt.Observe("err1", res.Error)
	verifrt.Observe("one", one)
}

func H_DEV_Assoc(shape int) {
	s := NewStore()
	db := openReal(stubDialector{}, s, nil)
	next := int64(10)
	s.OnExec = func(text string, args []driver.Value) Result {
		next += 10
		return Result{LastID: next, Affected: 1}
	}
	o := Owner{Name: "o", Company: &Company{Name: "c"}, Profile: Profile{Bio: "b"}, Pets: []Pet{{Name: "p1"}, {Name: "p2"}}}
	res := db.Create(&o)
	verifrt.Observe("err", res.Error)
	verifrt.Observe("log", s.Kinds())
	verifrt.Observe("owner", o)
}

func H_DEV_Nop(shape int) {}

func H_DEV_Open(shape int) { openDry(stubDialector{}) }

func H_DEV_M2M(shape int) {
	s := NewStore()
	db := openReal(stubDialector{}, s, nil)
	next := int64(10)
	s.OnExec = func(text string, args []driver.Value) Result { next += 10; return Result{LastID: next, Affected: 1} }
	sp := Speaker{Name: "s", Langs: []Lang{{Name: "go"}, {Name: "ml"}}}
	res := db.Create(&sp)
	verifrt.Observe("err", res.Error)
	verifrt.Observe("log", s.Kinds())
	res = db.Select("Langs").Delete(&sp)
	verifrt.Observe("err2", res.Error)
	verifrt.Observe("log2", s.Kinds())
}

package verifh

import (
	"database/sql/driver"

	"gorm.io/gorm"
	"gorm.io/gorm/internal/verifrt"
)

// Development smoke harnesses (property id DEV, not registered).
func H_DEV_Create(shape int) {
	db := openDry(stubDialector{})
	it := Item{Name: "n", Age: verifrt.Int("age"), Score: verifrt.Int64("score")}
	stmt := db.Create(&it).Statement
	verifrt.Observe("sql", stmt.SQL.String())
	verifrt.Observe("vars", stmt.Vars)
	verifrt.Assert(db.Error == nil, "noerr")
}

func H_DEV_Update(shape int) {
	db := openDry(stubDialector{})
	it := Item{ID: 7}
	stmt := db.Model(&it).Updates(Item{Name: "x", Age: verifrt.Int("age")}).Statement
	verifrt.Observe("sql", stmt.SQL.String())
	verifrt.Observe("vars", stmt.Vars)
}

func H_DEV_Delete(shape int) {
	db := openDry(stubDialector{})
	stmt := db.Where("rank > ?", verifrt.Int("r")).Delete(&Doc{}).Statement
	verifrt.Observe("sql", stmt.SQL.String())
	verifrt.Observe("vars", stmt.Vars)
}

func H_DEV_First(shape int) {
	db := openDry(stubDialector{})
	var d Doc
	stmt := db.Where("rank > ?", verifrt.Int("r")).First(&d).Statement
	verifrt.Observe("sql", stmt.SQL.String())
	var p Post
	stmt = db.Order("views").Limit(3).Find(&p, verifrt.Int("id")).Statement
	verifrt.Observe("sql2", stmt.SQL.String())
	verifrt.Observe("vars2", stmt.Vars)
}

func H_DEV_CreatePost(shape int) {
	db := openDry(stubDialector{})
	p := []Post{{Title: "a", Views: verifrt.Int("v")}, {Title: "b"}}
	stmt := db.Create(&p).Statement
	verifrt.Observe("sql", stmt.SQL.String())
	verifrt.Observe("nvars", len(stmt.Vars))
}

func H_DEV_RealCreate(shape int) {
	s := NewStore()
	db := openReal(stubDialector{}, s, nil)
	s.FaultAt = verifrt.Intn("fault", 0, 4)
	it := Item{Name: "n", Age: verifrt.Int("age")}
	res := db.Create(&it)
	verifrt.Observe("err", res.Error)
	verifrt.Observe("log", s.Kinds())
	verifrt.Observe("durable", len(s.Durable))
	verifrt.Observe("id", it.ID)
	verifrt.Assert(s.OpenTx() == 0, "tx finished")
}

func H_DEV_RealFind(shape int) {
	s := NewStore()
	db := openReal(stubDialector{}, s, nil)
	n := verifrt.Intn("n", 0, 2)
	s.OnQuery = func(text string, args []driver.Value) RowSet {
		rs := RowSet{Cols: []string{"id", "name", "age"}}
		for i := 0; i < n; i++ {
			rs.Rows = append(rs.Rows, []driver.Value{int64(i + 1), "nm", int64(30 + i)})
		}
		return rs
	}
	var items []Item
	res := db.Where("age > ?", verifrt.Int("a")).Find(&items)
	verifrt.Observe("err", res.Error)
	verifrt.Observe("log", s.Kinds())
	verifrt.Observe("items", items)
	verifrt.Observe("affected", res.RowsAffected)
	var one Item
	res = db.First(&one)
	verifrt.Observe("err1", res.Error)
	verifrt.Observe("one", one)
}

func H_DEV_Assoc(shape int) {
	s := NewStore()
	db := openReal(stubDialector{}, s, nil)
	next := int64(10)
	s.OnExec = func(text string, args []driver.Value) Result {
		next += 10
		return Result{LastID: next, Affected: 1}
	}
	o := Owner{Name: "o", Company: &Company{Name: "c"}, Profile: Profile{Bio: "b"}, Pets: []Pet{{Name: "p1"}, {Name: "p2"}}}
	res := db.Create(&o)
	verifrt.Observe("err", res.Error)
	verifrt.Observe("log", s.Kinds())
	verifrt.Observe("owner", o)
}

func H_DEV_Nop(shape int) {}

func H_DEV_Open(shape int) { openDry(stubDialector{}) }

func H_DEV_M2M(shape int) {
	s := NewStore()
	db := openReal(stubDialector{}, s, nil)
	next := int64(10)
	s.OnExec = func(text string, args []driver.Value) Result { next += 10; return Result{LastID: next, Affected: 1} }
	sp := Speaker{Name: "s", Langs: []Lang{{Name: "go"}, {Name: "ml"}}}
	res := db.Create(&sp)
	verifrt.Observe("err", res.Error)
	verifrt.Observe("log", s.Kinds())
	res = db.Select("Langs").Delete(&sp)
	verifrt.Observe("err2", res.Error)
	verifrt.Observe("log2", s.Kinds())
}

func H_DEV_AssocMode(shape int) {
	s := NewStore()
	db := openReal(stubDialector{}, s, nil)
	next := int64(10)
	s.OnExec = func(text string, args []driver.Value) Result {
		next += 10
		return Result{LastID: next, Affected: 1}
	}
	s.OnQuery = func(text string, args []driver.Value) RowSet {
		if hasPrefix(text, "SELECT count") {
			return RowSet{Cols: []string{"count(*)"}, Rows: [][]driver.Value{{int64(1)}}}
		}
		return RowSet{}
	}
	full := func() []interface{} {
		var r []interface{}
		for _, e := range s.Log {
			if e.Kind == "EXEC" || e.Kind == "QUERY" {
				r = append(r, e.Kind+" "+e.Text, e.Args)
			}
		}
		s.Log = nil
		return r
	}
	switch shape {
	case 0: // has many
		o := Owner{ID: 1, Name: "o"}
		a := func() *gorm.Association { return db.Model(&o).Association("Pets") }
		verifrt.Observe("append-err", a().Append(&Pet{Name: "new"}, &Pet{ID: 7, Name: "old"}))
		verifrt.Observe("append", full())
		verifrt.Observe("owner", o)
		verifrt.Observe("replace-err", a().Replace(&Pet{ID: 8, Name: "x"}))
		verifrt.Observe("replace", full())
		verifrt.Observe("delete-err", a().Delete(&Pet{ID: 8}))
		verifrt.Observe("delete", full())
		verifrt.Observe("clear-err", a().Clear())
		verifrt.Observe("clear", full())
		verifrt.Observe("count", a().Count())
		var ps []Pet
		a().Find(&ps)
		verifrt.Observe("count+find", full())
		verifrt.Observe("unscoped-delete-err", db.Model(&o).Association("Pets").Unscoped().Delete(&Pet{ID: 8}))
		verifrt.Observe("unscoped-delete", full())
	case 1: // many2many
		sp := Speaker{ID: 1, Name: "s"}
		a := func() *gorm.Association { return db.Model(&sp).Association("Langs") }
		verifrt.Observe("append-err", a().Append(&Lang{Name: "new"}, &Lang{ID: 7, Name: "old"}))
		verifrt.Observe("append", full())
		verifrt.Observe("replace-err", a().Replace(&Lang{ID: 8, Name: "x"}))
		verifrt.Observe("replace", full())
		verifrt.Observe("delete-err", a().Delete(&Lang{ID: 8}))
		verifrt.Observe("delete", full())
		verifrt.Observe("clear-err", a().Clear())
		verifrt.Observe("clear", full())
		verifrt.Observe("count", a().Count())
		var ls []Lang
		a().Find(&ls)
		verifrt.Observe("count+find", full())
	case 2: // belongs to
		o := Owner{ID: 1, Name: "o"}
		a := func() *gorm.Association { return db.Model(&o).Association("Company") }
		verifrt.Observe("append-err", a().Append(&Company{ID: 7, Name: "old"}))
		verifrt.Observe("append", full())
		verifrt.Observe("owner", o.CompanyID)
		verifrt.Observe("replace-err", a().Replace(&Company{Name: "new"}))
		verifrt.Observe("replace", full())
		verifrt.Observe("delete-err", a().Delete(&Company{ID: 20}))
		verifrt.Observe("delete", full())
		verifrt.Observe("clear-err", a().Clear())
		verifrt.Observe("clear", full())
		verifrt.Observe("count", a().Count())
		var c Company
		a().Find(&c)
		verifrt.Observe("count+find", full())
	case 4: // belongs to, unscoped
		two := uint(2)
		o := Owner{ID: 1, Name: "o", CompanyID: &two, Company: &Company{ID: 2, Name: "e"}}
		a := func() *gorm.Association { return db.Model(&o).Association("Company").Unscoped() }
		verifrt.Observe("replace-err", a().Replace(&Company{ID: 3, Name: "x"}))
		verifrt.Observe("replace", full())
		verifrt.Observe("delete-err", a().Delete(&Company{ID: 3}))
		verifrt.Observe("delete", full())
		three := uint(3)
		o.CompanyID = &three
		verifrt.Observe("clear-err", a().Clear())
		verifrt.Observe("clear", full())
	case 3: // has one
		o := Owner{ID: 1, Name: "o"}
		a := func() *gorm.Association { return db.Model(&o).Association("Profile") }
		verifrt.Observe("append-err", a().Append(&Profile{ID: 7, Bio: "old"}))
		verifrt.Observe("append", full())
		verifrt.Observe("replace-err", a().Replace(&Profile{Bio: "new"}))
		verifrt.Observe("replace", full())
		verifrt.Observe("delete-err", a().Delete(&Profile{ID: 20}))
		verifrt.Observe("delete", full())
		verifrt.Observe("clear-err", a().Clear())
		verifrt.Observe("clear", full())
		verifrt.Observe("count", a().Count())
		var p Profile
		a().Find(&p)
		verifrt.Observe("count+find", full())
	}
}

func N_DEV_AssocMode(tier int) int { return 5 }

func H_DEV_C14Leak(shape int) {
	s := c14Store()
	s.FaultAt = 3
	s.BadConn = true
	db := openPrepared(s, &gorm.Config{SkipDefaultTransaction: true})
	e1 := c14Op(db, "tx-exec-q1")
	e2 := c14Op(db, "query-s1")
	verifrt.Observe("e1", e1)
	verifrt.Observe("e2", e2)
	if p, ok := db.ConnPool.(*gorm.PreparedStmtDB); ok {
		p.Close()
	}
	verifrt.WaitAll()
	verifrt.Settle(func() bool { return s.OpenStmtsNow() == 0 })
	verifrt.Observe("open", s.OpenStmtsNow())
	var l []string
	for _, e := range s.Log {
		l = append(l, e.Kind+" "+e.Text)
	}
	verifrt.Observe("log", l)
}

func H_DEV_PermCollision(shape int) {
	db := openDry(stubDialector{})
	st := db.Model(&Perm{ID: 5}).Update("createonly", 1).Statement
	verifrt.Observe("sql", st.SQL.String())
	st2 := db.Model(&Perm{ID: 5}).Updates(map[string]interface{}{"createonly": 1, "audit_createonly": 2}).Statement
	verifrt.Observe("sql2", st2.SQL.String())
	var names []string
	for _, f := range st.Schema.Fields {
		names = append(names, f.Name+"/"+f.DBName)
	}
	verifrt.Observe("fields", names)
	f := st.Schema.LookUpField("createonly")
	verifrt.Observe("lookup", f.DBName+" updatable="+map[bool]string{true: "y", false: "n"}[f.Updatable])
	f2 := st.Schema.FieldsByName["CreateOnly"]
	verifrt.Observe("byname", f2.DBName)
}

package verifh

import (
	"context"
	"database/sql/driver"
	"errors"
	"sync"

	"gorm.io/gorm/internal/verifrt"
)

// The only model of a database: durable write tokens, per-transaction pending
// writes with save points, scripted query results, an abstract event log and a
// fault plan. Both back ends (symbolic database/sql summaries, native fake
// driver under the real database/sql) are thin adapters onto this file.

var errInjected = errors.New("verif: injected driver fault")

type ctxTagKey struct{}

// ctxTag extracts the harness tag carried by a context (0 = none/background).
func ctxTag(ctx context.Context) int {
	if ctx == nil {
		return -1
	}
	if v, ok := ctx.Value(ctxTagKey{}).(int); ok {
		return v
	}
	return 0
}

func tagCtx(tag int) context.Context {
	return context.WithValue(context.Background(), ctxTagKey{}, tag)
}

type Event struct {
	Kind string // BEGIN PREPARE EXEC QUERY COMMIT ROLLBACK CLOSE-STMT CLOSE-ROWS
	Text string
	Args []driver.Value
	Ctx  int
	Tx   int // 0 = outside a transaction
	Tok  int // write token for EXEC
	Fail bool
}

type savePoint struct {
	name string
	n    int
}

type txState struct {
	id      int
	pending []int
	saves   []savePoint
	done    bool
	bad     bool // the transaction's connection is gone (BadConn fault): every later call fails with driver.ErrBadConn
}

type Result struct {
	LastID   int64
	Affected int64
	IDErr    error
}

func (r Result) LastInsertId() (int64, error) { return r.LastID, r.IDErr }
func (r Result) RowsAffected() (int64, error) { return r.Affected, nil }

type RowSet struct {
	Cols []string
	Rows [][]driver.Value
	// BreakAfter > 0: the result set fails after delivering that many rows
	// (rows.Next() == false, rows.Err() == errRowsBroken); < 0: it fails on the first fetch
	BreakAfter int
	// Err != nil: the database rejects the query (the stub's answer is an error)
	Err error
}

var errRowsBroken = errors.New("verif: result set broken")

type Store struct {
	Log                 []Event
	Durable             []int
	txs                 []*txState
	calls               int
	FaultAt             int  // k-th BEGIN/EXEC/QUERY/COMMIT boundary call fails (0 = none)
	PrepareFaultAt      int  // k-th PrepareContext issued by gorm fails (0 = none); see faultPool
	DriverPrepareFaults bool // apply the plan to driver-level prepares instead
	prepCalls           int
	gormPrepares        int // PrepareContext calls issued by gorm (faultPool)
	gormPrepareTexts    []string
	noteMu              sync.Mutex
	FaultErr            error // default errInjected
	nextTok             int
	OpenStmts           int
	Prepared            int
	OpenRows            int
	CtxCancel           int // context tag that is "cancelled": every call with it fails
	OnExec              func(text string, args []driver.Value) Result
	OnExecCtx           func(ctx int, text string, args []driver.Value) Result // takes precedence over OnExec
	OnExecE             func(text string, args []driver.Value) (Result, error) // takes precedence over both; may fail the statement
	OnQuery             func(text string, args []driver.Value) RowSet
	NoSavepoint         bool
	BadConn             bool   // the injected fault, when it hits a call inside a transaction, is a lost connection (driver.ErrBadConn, sticky for that transaction)
	BadConnOutside      bool   // the injected fault, when it hits a statement outside a transaction, is a lost connection too: database/sql repeats the call on other connections (natively: sqlBadConnRetries more driver calls, not counted, not logged) and they all fail, so driver.ErrBadConn reaches the caller once
	badLeft             int    // native back end: repeated driver calls of the lost-connection statement still to fail
	badText             string
	Before              func() // called before every BEGIN/EXEC/QUERY/COMMIT boundary call, outside the driver lock (C07 pause point)
}

func (s *Store) pausePoint() {
	if s.Before != nil {
		s.Before()
	}
}

func NewStore() *Store { return &Store{} }

// fault numbers the fallible boundary calls. PREPARE calls have their own
// counter and plan: how often database/sql prepares at driver level depends on
// its pool internals, so statement-level fault positions must not depend on it.
func (s *Store) faultPrepare(ctx int) error {
	s.prepCalls++
	if s.CtxCancel != 0 && ctx == s.CtxCancel {
		return context.Canceled
	}
	if s.PrepareFaultAt != 0 && s.prepCalls == s.PrepareFaultAt && s.DriverPrepareFaults {
		if s.FaultErr != nil {
			return s.FaultErr
		}
		return errInjected
	}
	return nil
}

func (s *Store) fault(ctx int) error {
	s.calls++
	if s.CtxCancel != 0 && ctx == s.CtxCancel {
		return context.Canceled
	}
	if s.FaultAt != 0 && s.calls == s.FaultAt {
		if s.FaultErr != nil {
			return s.FaultErr
		}
		return errInjected
	}
	return nil
}

// faultIn is fault for a call that may belong to a transaction. With BadConn a
// fault inside a transaction loses the connection: this and every later call
// of that transaction fail with driver.ErrBadConn; the later ones are not
// logged (database/sql repeats a failed prepared-statement call on the same
// transaction connection, how often is its business).
func (s *Store) faultIn(tx *txState, ctx int) (error, bool) {
	if tx != nil && tx.bad {
		return driver.ErrBadConn, true
	}
	err := s.fault(ctx)
	if err != nil && s.BadConnOutside && tx == nil && err != context.Canceled {
		s.badLeft = sqlBadConnRetries
		return driver.ErrBadConn, false
	}
	if err != nil && s.BadConn && tx != nil && err != context.Canceled {
		tx.bad = true
		return driver.ErrBadConn, false
	}
	return err, false
}

// badRetry: database/sql's repetitions of a statement whose connection was lost
// outside a transaction (native back end only; the symbolic summaries of
// *sql.DB/*sql.Stmt stand for the whole retry loop). The repetitions carry the
// same text and follow the failed call directly; anything else ends them.
func (s *Store) badRetry(tx *txState, text string) bool {
	if s.badLeft == 0 {
		return false
	}
	if tx != nil || (s.badText != "" && s.badText != text) {
		s.badLeft = 0
		return false
	}
	s.badLeft--
	return true
}

// Calls is the number of fallible boundary calls made so far.
func (s *Store) Calls() int { return s.calls }

func (s *Store) Begin(ctx int) (*txState, error) {
	verifrt.Yield() // every boundary call is a scheduling point
	if err := s.fault(ctx); err != nil {
		s.Log = append(s.Log, Event{Kind: "BEGIN", Ctx: ctx, Fail: true})
		return nil, err
	}
	tx := &txState{id: len(s.txs) + 1}
	s.txs = append(s.txs, tx)
	s.Log = append(s.Log, Event{Kind: "BEGIN", Ctx: ctx, Tx: tx.id})
	return tx, nil
}

func (s *Store) Commit(tx *txState) error {
	verifrt.Yield()
	if tx.done {
		return errTxDone
	}
	tx.done = true
	if err, silent := s.faultIn(tx, 0); err != nil {
		// a failed COMMIT leaves nothing durable (stated stub contract)
		if !silent {
			s.Log = append(s.Log, Event{Kind: "COMMIT", Tx: tx.id, Fail: true})
		}
		return err
	}
	s.Durable = append(s.Durable, tx.pending...)
	s.Log = append(s.Log, Event{Kind: "COMMIT", Tx: tx.id})
	return nil
}

var errTxDone = errors.New("sql: transaction has already been committed or rolled back")

func (s *Store) Rollback(tx *txState) error {
	if tx.done {
		return errTxDone
	}
	tx.done = true
	tx.pending = nil
	s.Log = append(s.Log, Event{Kind: "ROLLBACK", Tx: tx.id})
	return nil
}

// OpenTx counts transactions begun and not finished.
func (s *Store) OpenTx() int {
	n := 0
	for _, t := range s.txs {
		if !t.done {
			n++
		}
	}
	return n
}

func hasPrefix(s, p string) bool { return len(s) >= len(p) && s[:len(p)] == p }

func (s *Store) Exec(tx *txState, ctx int, text string, args []driver.Value) (Result, error) {
	verifrt.Yield()
	txid := 0
	if tx != nil {
		txid = tx.id
		if tx.done {
			return Result{}, errTxDone
		}
	}
	if s.badRetry(tx, text) {
		return Result{}, driver.ErrBadConn
	}
	if hasPrefix(text, "ROLLBACK TO SAVEPOINT ") {
		// never failed: no client code can undo writes if the database refuses to
		name := text[len("ROLLBACK TO SAVEPOINT "):]
		s.Log = append(s.Log, Event{Kind: "EXEC", Text: text, Ctx: ctx, Tx: txid})
		if tx != nil {
			for i := len(tx.saves) - 1; i >= 0; i-- {
				if tx.saves[i].name == name {
					tx.pending = tx.pending[:tx.saves[i].n:tx.saves[i].n]
					tx.saves = tx.saves[:i+1]
					return Result{}, nil
				}
			}
		}
		return Result{}, errors.New("verif: no such savepoint")
	}
	if err, silent := s.faultIn(tx, ctx); err != nil {
		if !silent {
			s.Log = append(s.Log, Event{Kind: "EXEC", Text: text, Args: args, Ctx: ctx, Tx: txid, Fail: true})
		}
		s.badText = text
		return Result{}, err
	}
	if hasPrefix(text, "SAVEPOINT ") {
		s.Log = append(s.Log, Event{Kind: "EXEC", Text: text, Ctx: ctx, Tx: txid})
		if tx != nil {
			tx.saves = append(tx.saves, savePoint{name: text[len("SAVEPOINT "):], n: len(tx.pending)})
		}
		return Result{}, nil
	}
	res := Result{Affected: 1}
	if s.OnExecE != nil {
		r, err := s.OnExecE(text, args)
		if err != nil {
			s.Log = append(s.Log, Event{Kind: "EXEC", Text: text, Args: args, Ctx: ctx, Tx: txid, Fail: true})
			return Result{}, err
		}
		res = r
	} else if s.OnExecCtx != nil {
		res = s.OnExecCtx(ctx, text, args)
	} else if s.OnExec != nil {
		res = s.OnExec(text, args)
	}
	if res.Affected == 0 {
		// a statement that touched no row changes nothing: no write token
		s.Log = append(s.Log, Event{Kind: "EXEC", Text: text, Args: args, Ctx: ctx, Tx: txid})
		return res, nil
	}
	s.nextTok++
	tok := s.nextTok
	s.Log = append(s.Log, Event{Kind: "EXEC", Text: text, Args: args, Ctx: ctx, Tx: txid, Tok: tok})
	if tx != nil {
		tx.pending = append(tx.pending, tok)
	} else {
		s.Durable = append(s.Durable, tok)
	}
	return res, nil
}

func (s *Store) Query(tx *txState, ctx int, text string, args []driver.Value) (RowSet, error) {
	verifrt.Yield()
	txid := 0
	if tx != nil {
		txid = tx.id
		if tx.done {
			return RowSet{}, errTxDone
		}
	}
	if s.badRetry(tx, text) {
		return RowSet{}, driver.ErrBadConn
	}
	if err, silent := s.faultIn(tx, ctx); err != nil {
		if !silent {
			s.Log = append(s.Log, Event{Kind: "QUERY", Text: text, Args: args, Ctx: ctx, Tx: txid, Fail: true})
		}
		s.badText = text
		return RowSet{}, err
	}
	s.Log = append(s.Log, Event{Kind: "QUERY", Text: text, Args: args, Ctx: ctx, Tx: txid})
	if s.OnQuery != nil {
		rs := s.OnQuery(text, args)
		if rs.Err != nil {
			s.Log[len(s.Log)-1].Fail = true
			return RowSet{}, rs.Err
		}
		s.OpenRows++
		// a row-returning write (INSERT/UPDATE/DELETE ... RETURNING) that returns rows and
		// whose result set does not break is a write like any other: it gets a token
		if (hasPrefix(text, "INSERT ") || hasPrefix(text, "UPDATE ") || hasPrefix(text, "DELETE ")) && len(rs.Rows) > 0 && rs.BreakAfter == 0 {
			s.nextTok++
			tok := s.nextTok
			s.Log[len(s.Log)-1].Tok = tok
			if tx != nil {
				tx.pending = append(tx.pending, tok)
			} else {
				s.Durable = append(s.Durable, tok)
			}
		}
		return rs, nil
	}
	s.OpenRows++
	return RowSet{}, nil
}

func (s *Store) Prepare(tx *txState, ctx int, text string) error {
	verifrt.Yield()
	txid := 0
	if tx != nil {
		txid = tx.id
	}
	if err := s.faultPrepare(ctx); err != nil {
		s.Log = append(s.Log, Event{Kind: "PREPARE", Text: text, Ctx: ctx, Tx: txid, Fail: true})
		return err
	}
	s.Prepared++
	s.OpenStmts++
	s.Log = append(s.Log, Event{Kind: "PREPARE", Text: text, Ctx: ctx, Tx: txid})
	return nil
}

func (s *Store) CloseStmt(text string) {
	verifrt.Yield()
	s.OpenStmts--
	s.Log = append(s.Log, Event{Kind: "CLOSE-STMT", Text: text})
}

func (s *Store) CloseRows() {
	s.OpenRows--
	s.Log = append(s.Log, Event{Kind: "CLOSE-ROWS"})
}

// ---- log queries used by the harnesses

func (s *Store) Count(kind string) int {
	n := 0
	for i := range s.Log {
		if s.Log[i].Kind == kind {
			n++
		}
	}
	return n
}

// Statements counts EXEC/QUERY events that are not save-point bookkeeping.
func (s *Store) Statements() int {
	n := 0
	for i := range s.Log {
		e := s.Log[i]
		if (e.Kind == "EXEC" || e.Kind == "QUERY") && !hasPrefix(e.Text, "SAVEPOINT ") && !hasPrefix(e.Text, "ROLLBACK TO SAVEPOINT ") {
			n++
		}
	}
	return n
}

func (s *Store) HasDurable(tok int) bool {
	for _, t := range s.Durable {
		if t == tok {
			return true
		}
	}
	return false
}

// Kinds renders the event kinds (save-point names normalised) for observation.
func (s *Store) Kinds() []string {
	var names []string
	norm := func(n string) string {
		for i := range names {
			if names[i] == n {
				return "sp" + string([]byte{byte('A' + i)})
			}
		}
		names = append(names, n)
		return "sp" + string([]byte{byte('A' + len(names) - 1)})
	}
	var r []string
	for i := range s.Log {
		e := s.Log[i]
		k := e.Kind
		if k == "PREPARE" || k == "CLOSE-STMT" {
			// driver-level prepare/close traffic depends on database/sql's pool
			// internals (re-preparing on the transaction's connection): not observed
			continue
		}
		switch {
		case hasPrefix(e.Text, "SAVEPOINT "):
			k += " SAVEPOINT " + norm(e.Text[len("SAVEPOINT "):])
		case hasPrefix(e.Text, "ROLLBACK TO SAVEPOINT "):
			k += " ROLLBACK TO " + norm(e.Text[len("ROLLBACK TO SAVEPOINT "):])
		case e.Text != "":
			k += " " + e.Text
		}
		if e.Fail {
			k += " !"
		}
		r = append(r, k)
	}
	return r
}

func (s *Store) notePrepare(text string) {
	s.noteMu.Lock()
	s.gormPrepareTexts = append(s.gormPrepareTexts, text)
	s.noteMu.Unlock()
}

// OpenStmtsNow reads the number of open prepared statements (natively under the driver lock).
func (s *Store) OpenStmtsNow() int {
	lockStore()
	defer unlockStore()
	return s.OpenStmts
}

package gorm

// Overlay-only helpers for the C17 harness (never part of /repo).

// VerifProcessor is an opaque handle on a callback pipeline.
type VerifProcessor = processor

// VerifCloneProcessor copies the registration state of p (names and
// before/after/remove/replace marks as they are after the default
// registration) into a fresh processor whose handlers are mk(name), and
// compiles it with the real compile().
func VerifCloneProcessor(p *processor, mk func(name string) func(*DB)) (*processor, error) {
	np := &processor{db: p.db, Clauses: p.Clauses}
	for _, c := range p.callbacks {
		nc := *c
		nc.processor = np
		nc.handler = mk(c.name)
		np.callbacks = append(np.callbacks, &nc)
	}
	err := np.compile()
	return np, err
}

// VerifRunFns executes the compiled pipeline.
func VerifRunFns(p *processor, db *DB) {
	for _, f := range p.fns {
		f(db)
	}
}

// VerifCallbackNames lists the names of the registered entries in order.
func VerifCallbackNames(p *processor) []string {
	var r []string
	for _, c := range p.callbacks {
		r = append(r, c.name)
	}
	return r
}

// Package verifrt is the harness runtime. Under the symbolic engine every
// function here is intercepted by name (its body is never executed); compiled
// natively the bodies read a concrete assignment, so that every harness is also
// an ordinary Go program used for replay and differential validation.
package verifrt

import (
	"fmt"
	"strings"
	"sync"
)

var rtMu sync.Mutex // harness goroutines share the case state

type caseState struct {
	assign   map[string]uint64
	counters map[string]int
	observes []string
	reached  map[string]bool
	tags     []string
	fail     string
	missing  []string
}

var cur = &caseState{assign: map[string]uint64{}, counters: map[string]int{}, reached: map[string]bool{}}

type assumeFail struct{}
type assertFail struct{ label string }

func next(name string) uint64 {
	rtMu.Lock()
	defer rtMu.Unlock()
	cur.counters[name]++
	k := fmt.Sprintf("%s_%d", name, cur.counters[name])
	v, ok := cur.assign[k]
	if !ok {
		cur.missing = append(cur.missing, k)
	}
	return v
}

func Byte(name string) byte     { return byte(next(name)) }
func Bool(name string) bool     { return next(name) != 0 }
func Int(name string) int       { return int(next(name)) }
func Int64(name string) int64   { return int64(next(name)) }
func Uint64(name string) uint64 { return next(name) }

// Intn returns an arbitrary int in [lo, hi].
func Intn(name string, lo, hi int) int {
	v := int(next(name))
	if v < lo || v > hi {
		panic(assumeFail{})
	}
	return v
}

// Bytes returns a string of n arbitrary bytes.
func Bytes(name string, n int) string {
	b := make([]byte, n)
	for i := range b {
		b[i] = byte(next(name))
	}
	return string(b)
}

func Assume(c bool) {
	if !c {
		panic(assumeFail{})
	}
}

func Assert(c bool, label string) {
	if !c {
		rtMu.Lock()
		if cur.fail == "" {
			cur.fail = label
		}
		rtMu.Unlock()
		panic(assertFail{label})
	}
}

// Fail is an unconditional violation.
func Fail(label string) {
	rtMu.Lock()
	if cur.fail == "" {
		cur.fail = label
	}
	rtMu.Unlock()
	panic(assertFail{label})
}

func Reach(label string) { rtMu.Lock(); cur.reached[label] = true; rtMu.Unlock() }
func Tag(tag string)     { rtMu.Lock(); cur.tags = append(cur.tags, tag); rtMu.Unlock() }

// Non-branching boolean helpers (terms under the engine).
func And(a, b bool) bool     { return a && b }
func Or(a, b bool) bool      { return a || b }
func Not(a bool) bool        { return !a }
func Implies(a, b bool) bool { return !a || b }
func Iff(a, b bool) bool     { return a == b }
func IteInt(c bool, a, b int) int {
	if c {
		return a
	}
	return b
}
func IteInt64(c bool, a, b int64) int64 {
	if c {
		return a
	}
	return b
}
func IteByte(c bool, a, b byte) byte {
	if c {
		return a
	}
	return b
}
func IteBool(c bool, a, b bool) bool {
	if c {
		return a
	}
	return b
}
func EqStr(a, b string) bool { return a == b }
func EqInt(a, b int) bool    { return a == b }
func LtInt(a, b int) bool    { return a < b }
func LeInt(a, b int) bool    { return a <= b }

// Entails reports whether the path condition implies c (natively: c itself).
func Entails(c bool) bool { return c }

// Mentions reports whether any byte of s depends on a nondet symbol whose name
// starts with prefix (term-level taint). Natively there are no terms: false.
func Mentions(s string, prefix string) bool { return false }

// IsSymbolic is true under the engine, false natively.
func IsSymbolic() bool { return false }

// Concretize case-splits v over [lo,hi] under the engine; natively the identity.
func Concretize(v int, lo, hi int) int {
	if v < lo || v > hi {
		panic(assumeFail{})
	}
	return v
}

// ConcretizeByte case-splits b over the candidate bytes.
func ConcretizeByte(b byte, candidates string) byte {
	if strings.IndexByte(candidates, b) < 0 {
		panic(assumeFail{})
	}
	return b
}

// Yield is a scheduling point under the engine. Natively it nudges the Go
// scheduler so that repeated runs see different interleavings.
func Yield() { nativeYield() }

// Memo returns f(); under the engine the (concrete, read-only) result is
// computed once per key and shared by all paths.
func Memo(key string, f func() interface{}) interface{} { return f() }

// SyncMapPoints makes every sync.Map operation a scheduling point (engine only).
func SyncMapPoints() {}

// Preemptions bounds the non-forced thread switches explored by the engine.
func Preemptions(n int) {}

// MapRaces makes the engine watch every map gorm makes from here on: two accesses
// by different goroutines, one of them a write, that no synchronisation orders
// on the explored schedule are reported (label map-race) and confirmed natively
// by the Go race detector. Natively a no-op.
func MapRaces() {}

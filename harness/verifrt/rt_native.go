//go:build !verifsym

package verifrt

import (
	"strconv"
	"encoding/json"
	"fmt"
	"os"
	"reflect"
	"runtime"
	"sort"
	"strings"
	"sync"
	"sync/atomic"
	"time"
)

// Observe records a value for differential validation (interpreter vs native).
func Observe(label string, v interface{}) {
	o := label + "=" + FmtObs(v)
	rtMu.Lock()
	cur.observes = append(cur.observes, o)
	rtMu.Unlock()
}

// SameValue is structural equality of two values.
func SameValue(a, b interface{}) bool { return reflect.DeepEqual(a, b) }

// FmtObs is the canonical rendering shared with the engine's evaluator.
func FmtObs(v interface{}) string {
	if v == nil {
		return "nil"
	}
	if e, ok := v.(error); ok {
		return "err:" + fmt.Sprintf("%q", e.Error())
	}
	rv := reflect.ValueOf(v)
	return fmtObsV(rv)
}

func fmtObsV(rv reflect.Value) string {
	switch rv.Kind() {
	case reflect.Invalid:
		return "nil"
	case reflect.String:
		return fmt.Sprintf("%q", rv.String())
	case reflect.Bool:
		return fmt.Sprint(rv.Bool())
	case reflect.Int, reflect.Int8, reflect.Int16, reflect.Int32, reflect.Int64:
		return fmt.Sprint(rv.Int())
	case reflect.Uint, reflect.Uint8, reflect.Uint16, reflect.Uint32, reflect.Uint64, reflect.Uintptr:
		return fmt.Sprint(rv.Uint())
	case reflect.Float32, reflect.Float64:
		return fmt.Sprint(rv.Float())
	case reflect.Slice, reflect.Array:
		if rv.Kind() == reflect.Slice && rv.Type().Elem().Kind() == reflect.Uint8 {
			return "b" + fmt.Sprintf("%q", string(rv.Bytes()))
		}
		parts := make([]string, rv.Len())
		for i := range parts {
			parts[i] = fmtObsV(rv.Index(i))
		}
		return "[" + strings.Join(parts, " ") + "]"
	case reflect.Interface:
		if rv.IsNil() {
			return "nil"
		}
		if e, ok := rv.Interface().(error); ok {
			return "err:" + fmt.Sprintf("%q", e.Error())
		}
		return fmtObsV(rv.Elem())
	case reflect.Pointer:
		if rv.IsNil() {
			return "nil"
		}
		if e, ok := rv.Interface().(error); ok {
			return "err:" + fmt.Sprintf("%q", e.Error())
		}
		return "&" + fmtObsV(rv.Elem())
	case reflect.Struct:
		parts := make([]string, 0, rv.NumField())
		for i := 0; i < rv.NumField(); i++ {
			if rv.Type().Field(i).PkgPath != "" {
				parts = append(parts, "_")
				continue
			}
			parts = append(parts, fmtObsV(rv.Field(i)))
		}
		return "{" + strings.Join(parts, " ") + "}"
	case reflect.Map:
		keys := rv.MapKeys()
		parts := make([]string, len(keys))
		for i, k := range keys {
			parts[i] = fmtObsV(k) + ":" + fmtObsV(rv.MapIndex(k))
		}
		sort.Strings(parts)
		return "map[" + strings.Join(parts, " ") + "]"
	}
	return "<" + rv.Kind().String() + ">"
}

// ---- goroutines of threaded harnesses (native: real goroutines behind a start barrier)

var (
	thrMu    sync.Mutex
	thrWG    sync.WaitGroup
	thrStart chan struct{}
	thrPanic string
	yieldN   uint32
	startN   uint32
)

var thrStarted bool

// goroutine identity for ThreadID/Park (native): goroutine id -> index in Go order
var (
	thrIDs     sync.Map
	thrSpawned int32
	thrDone    int32
	thrParked  int32
)

func resetThreads() {
	thrStart = make(chan struct{})
	thrStarted = false
	thrPanic = ""
	thrIDs = sync.Map{}
	atomic.StoreInt32(&thrSpawned, 0)
	atomic.StoreInt32(&thrDone, 0)
	atomic.StoreInt32(&thrParked, 0)
}

func goid() string {
	var buf [64]byte
	n := runtime.Stack(buf[:], false)
	f := strings.Fields(string(buf[:n]))
	if len(f) >= 2 {
		return f[1]
	}
	return ""
}

// Settle waits until cond holds, for at most two seconds: goroutines started by the
// code under test (asynchronous closers) finish on their own schedule.
func Settle(cond func() bool) {
	deadline := time.Now().Add(2 * time.Second)
	for !cond() && time.Now().Before(deadline) {
		time.Sleep(500 * time.Microsecond)
	}
}

// Tier is 0 in the quick tier and 1 in the thorough tier.
func Tier() int {
	if os.Getenv("VERIF_TIERN") == "1" {
		return 1
	}
	return 0
}

// ThreadID is 0 on the harness goroutine and k on the k-th goroutine started with Go.
func ThreadID() int {
	if v, ok := thrIDs.Load(goid()); ok {
		return v.(int)
	}
	return 0
}

// Park holds the calling goroutine until every other goroutine started with Go
// is finished or parked too - or, natively, until 50ms have passed (a goroutine
// blocked inside the code under test cannot be observed from outside).
func Park() {
	atomic.AddInt32(&thrParked, 1)
	deadline := time.Now().Add(50 * time.Millisecond)
	for time.Now().Before(deadline) {
		running := atomic.LoadInt32(&thrSpawned) - atomic.LoadInt32(&thrDone) - atomic.LoadInt32(&thrParked)
		if running <= 0 {
			break
		}
		time.Sleep(100 * time.Microsecond)
	}
	atomic.AddInt32(&thrParked, -1)
}

// Go starts a goroutine that waits for WaitAll's start signal.
func Go(f func()) {
	thrWG.Add(1)
	start := thrStart
	idx := int(atomic.AddInt32(&thrSpawned, 1))
	go func() {
		defer thrWG.Done()
		defer atomic.AddInt32(&thrDone, 1)
		thrIDs.Store(goid(), idx)
		defer func() {
			if r := recover(); r != nil {
				switch r.(type) {
				case assumeFail:
				case assertFail:
				default:
					thrMu.Lock()
					if thrPanic == "" {
						thrPanic = fmt.Sprint(r)
					}
					thrMu.Unlock()
				}
			}
		}()
		<-start
		// the start order is a schedule choice of the engine; natively the goroutines
		// leave the barrier a little apart, differently on every repetition
		if n := atomic.AddUint32(&startN, 1); n%4 != 0 {
			time.Sleep(time.Duration(n%4) * time.Duration(30+n%7*10) * time.Microsecond)
		}
		f()
	}()
}

// StartAll releases the goroutines started with Go and gives them a moment to
// reach their first blocking point.
func StartAll() {
	if !thrStarted {
		thrStarted = true
		close(thrStart)
	}
	time.Sleep(200 * time.Microsecond)
}

// WaitAll releases the goroutines together, waits for them and gives the
// closers spawned by the code under test a moment to finish.
func WaitAll() {
	if !thrStarted {
		thrStarted = true
		close(thrStart)
	}
	thrWG.Wait()
	// closers spawned by the code under test: wait until the number of goroutines has
	// stopped changing (at most 100 ms)
	time.Sleep(500 * time.Microsecond)
	prev, same := runtime.NumGoroutine(), 0
	for i := 0; i < 200 && same < 3; i++ {
		time.Sleep(500 * time.Microsecond)
		if n := runtime.NumGoroutine(); n == prev {
			same++
		} else {
			prev, same = n, 0
		}
	}
	thrMu.Lock()
	p := thrPanic
	thrMu.Unlock()
	if p != "" {
		panic(p)
	}
}

func nativeYield() {
	n := atomic.AddUint32(&yieldN, 1)
	if n%3 == 0 {
		time.Sleep(time.Duration(n%7) * 20 * time.Microsecond)
	} else {
		runtime.Gosched()
	}
}

// ---- native batch runner

type Case struct {
	Harness string            `json:"harness"`
	Shape   int               `json:"shape"`
	Assign  map[string]uint64 `json:"assign"`
	Repeat  int               `json:"repeat"`
}

type CaseResult struct {
	Harness  string   `json:"harness"`
	Shape    int      `json:"shape"`
	Observes []string `json:"observes"`
	Reached  []string `json:"reached"`
	Tags     []string `json:"tags"`
	Fail     string   `json:"fail"`
	Panic    string   `json:"panic"`
	Assume   bool     `json:"assume_violated"`
	Missing  []string `json:"missing"`
	Unknown  bool     `json:"unknown_harness"`
}

// RunBatch runs every case of the JSON file at path and writes path+".out".
func RunBatch(path string, reg map[string]func(int)) error {
	b, err := os.ReadFile(path)
	if err != nil {
		return err
	}
	var cases []Case
	if err := json.Unmarshal(b, &cases); err != nil {
		return err
	}
	// VERIF_BATCH_FROM: resume after a case that killed the process (a fatal error of the
	// Go runtime cannot be recovered); the results so far are kept in <path>.out.part so
	// that the engine can tell which case that was
	from, _ := strconv.Atoi(os.Getenv("VERIF_BATCH_FROM"))
	if from < 0 || from > len(cases) {
		from = 0
	}
	results := make([]CaseResult, 0, len(cases)-from)
	for _, c := range cases[from:] {
		r := runCase(c, reg)
		// schedule-dependent cases: repeat until the failure shows
		for k := 1; k < c.Repeat && r.Fail == "" && r.Panic == ""; k++ {
			r = runCase(c, reg)
		}
		results = append(results, r)
		if part, err := json.Marshal(results); err == nil {
			os.WriteFile(path+".out.part", part, 0o644)
		}
	}
	out, _ := json.Marshal(results)
	return os.WriteFile(path+".out", out, 0o644)
}

// runCase runs one case under a watchdog: a harness that does not finish within
// the limit (the code under test deadlocked) is reported as such and abandoned
// (its goroutines stay blocked; the next case starts from fresh state).
func runCase(c Case, reg map[string]func(int)) CaseResult {
	done := make(chan CaseResult, 1)
	go func() { done <- runCase1(c, reg) }()
	select {
	case r := <-done:
		return r
	case <-time.After(caseTimeout):
		return CaseResult{Harness: c.Harness, Shape: c.Shape, Panic: "timeout: the harness did not finish (deadlock)"}
	}
}

var caseTimeout = 10 * time.Second

func runCase1(c Case, reg map[string]func(int)) (res CaseResult) {
	res.Harness, res.Shape = c.Harness, c.Shape
	f, ok := reg[c.Harness]
	if !ok {
		res.Unknown = true
		return
	}
	cur = &caseState{assign: c.Assign, counters: map[string]int{}, reached: map[string]bool{}}
	resetThreads()
	defer func() {
		if r := recover(); r != nil {
			switch x := r.(type) {
			case assumeFail:
				res.Assume = true
			case assertFail:
				res.Fail = x.label
			default:
				res.Panic = fmt.Sprint(r)
			}
		}
		res.Observes = cur.observes
		res.Tags = cur.tags
		res.Missing = cur.missing
		for l := range cur.reached {
			res.Reached = append(res.Reached, l)
		}
		sort.Strings(res.Reached)
	}()
	f(c.Shape)
	cur.reached["<end>"] = true
	if cur.fail != "" {
		res.Fail = cur.fail // an assertion failed in a harness goroutine
	}
	return
}

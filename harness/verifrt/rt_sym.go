//go:build verifsym

package verifrt

// Bodies are never executed: the engine intercepts these by name.
func Observe(label string, v interface{}) {}
func SameValue(a, b interface{}) bool     { return false }

// ConvertAssign runs database/sql's own (unexported) convertAssign under the
// engine; it exists only in the symbolic build.
func ConvertAssign(dest, src interface{}) error { return nil }

// Go starts a goroutine of the harness (an interpreter thread under the engine).
func Go(f func()) {}

// WaitAll joins every goroutine started with Go and those started by the code under test.
func WaitAll() {}

func nativeYield() {}

// StartAll lets the goroutines started with Go run up to their first blocking point.
func StartAll() {}

// ThreadID is 0 on the harness goroutine and k on the k-th goroutine started with Go.
func ThreadID() int { return 0 }

// Park holds the calling goroutine until every other goroutine is finished, blocked or parked too.
func Park() {}

// Tier is 0 in the quick tier and 1 in the thorough tier.
func Tier() int { return 0 }

// Settle is a no-op under the engine (WaitAll runs every thread to completion).
func Settle(cond func() bool) {}

//go:build verifsym

package verifrt

// Bodies are never executed: the engine intercepts these by name.
func Observe(label string, v interface{}) {}
func SameValue(a, b interface{}) bool     { return false }

// ConvertAssign runs database/sql's own (unexported) convertAssign under the
// engine; it exists only in the symbolic build.
func ConvertAssign(dest, src interface{}) error { return nil }

//go:build verifsym

package verifrt

// Bodies are never executed: the engine intercepts these by name.
func Observe(label string, v interface{}) {}
func SameValue(a, b interface{}) bool     { return false }
